"""C01 - task dependencies (FS/SS/FF/SF) are never violated; the task lifecycle only advances."""
from props.simcore import run_sim, snapshots, full_steps, is_abs_step, NONE, READY, WORKING, FINISHED, RANK, SIM_FUNCTIONS
from props import profiles
from model.stubs import STUB_NOTES

META = {
    "rule": "one case = one symbolic path of simulate() on a family member (a class of work amounts/skills/absences with the same schedule); "
            "non-trivial = at least one dependency edge whose successor left NONE and >= 2 simulated steps; distinct by the concrete state/allocation logs",
    "functions": SIM_FUNCTIONS,
    "stubs": STUB_NOTES,
    "assumptions": profiles.ASSUMPTIONS,
    "bounds": {"quick": {"tasks": "<= 3 over all four kinds, 4 in FS/SS chains and diamonds", "work": "0..3 (0..4 in 2-task profiles)", "workers": "<= 3", "horizon max_time": "<= 12"},
               "thorough": {"tasks": "<= 4 over all four kinds", "work": "0..4", "workers": "<= 3", "horizon max_time": "<= 16"}},
    "outside": profiles.OUTSIDE,
}
REQUIRED_COVERS = {"any": ["edge:FS", "edge:SS", "edge:FF", "edge:SF", "same-step-zero", "absence-working-shown-ready"]}


def oracle(M, ctx):
    n = len(M.tasks)
    exempt = [M.prog[i] == 2 for i in range(n)]
    started = [False] * n
    # live gates at every phase of every step
    for t, ph, S in snapshots(M):
        st = S["tstate"]
        for i in range(n):
            if st[i] in (WORKING, FINISHED):
                started[i] = True
        for (a, b, k) in M.edges:
            if exempt[b]:
                continue
            if k == 0:
                if st[b] != NONE and st[a] != FINISHED:
                    ctx.fail("C01:FS-violated-live")
            elif k == 1:
                if st[b] != NONE and not started[a]:
                    ctx.fail("C01:SS-violated-live")
            elif k == 2:
                if st[b] == FINISHED and st[a] != FINISHED:
                    ctx.fail("C01:FF-violated-live")
            elif k == 3:
                if st[b] == FINISHED and not started[a]:
                    ctx.fail("C01:SF-violated-live")
    # logs: FS and FF gates, monotonic lifecycle
    for (a, b, k) in M.edges:
        la, lb = M.tasks[a].state_record_list, M.tasks[b].state_record_list
        if k == 0:
            ctx.cover("edge:FS")
        elif k == 1:
            ctx.cover("edge:SS")
        elif k == 2:
            ctx.cover("edge:FF")
        elif k == 3:
            ctx.cover("edge:SF")
        if exempt[b]:
            continue
        for t in range(min(len(la), len(lb))):
            if k == 0 and int(lb[t]) != NONE and int(la[t]) != FINISHED:
                ctx.fail("C01:FS-violated-log")
            if k == 2 and int(lb[t]) == FINISHED and int(la[t]) != FINISHED:
                ctx.fail("C01:FF-violated-log")
    steps = full_steps(M)
    for i in range(n):
        prev = None
        for st in steps:
            r = RANK.get(st["recorded"]["tstate"][i], 99)
            if prev is not None and r < prev:
                ctx.fail("C01:live-state-went-back")
            prev = r
        if M.obs.steps and "updated" in M.obs.steps[-1]:
            r = RANK.get(M.obs.steps[-1]["updated"]["tstate"][i], 99)
            if prev is not None and r < prev:
                ctx.fail("C01:live-state-went-back")
        log = [int(s) for s in M.tasks[i].state_record_list]
        for t in range(1, len(log)):
            if RANK.get(log[t], 99) < RANK.get(log[t - 1], 99):
                if log[t - 1] == WORKING and log[t] == READY and is_abs_step(M, t):
                    ctx.cover("absence-working-shown-ready")
                else:
                    ctx.fail("C01:log-state-went-back")
        if exempt[i]:
            if any(s != FINISHED for s in log):
                ctx.fail("C01:complete-task-not-finished-from-start")
    # cover: two linked tasks reach zero in the same step
    for st in steps:
        pf, up = st.get("performed"), st.get("updated")
        if pf is None:
            continue
        for (a, b, k) in M.edges:
            if pf["tstate"][a] == WORKING and pf["tstate"][b] == WORKING and pf["rem"][a] < 1e-10 and pf["rem"][b] < 1e-10:
                ctx.cover("same-step-zero")
    ctx.nontrivial = len(steps) >= 2 and any(any(int(s) != NONE for s in M.tasks[b].state_record_list) for (_, b, _) in M.edges)

CROSSCHECK = {"thorough": 8}


def sim(p, ctx):
    M = run_sim(p, ctx)
    oracle(M, ctx)


def sim_history(p, ctx):
    from props.simcore import run_sim_history

    M = run_sim_history(p, ctx, p["mode"])
    if M.exc is None:
        oracle(M, ctx)


def obligations(tier, seed):
    return profiles.obligations_for("C01", tier)
