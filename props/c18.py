"""C18 - editing absence steps out of or into finished logs keeps all logs aligned."""
from engine.sym import exc_tag
from model.family import build, sim_kwargs, val
from model.observe import dump, concrete_sig
from model.stubs import STUB_NOTES
from props import profiles
from props.histcore import Sim, diff_dumps, short_key, log_lengths
from props.simcore import SIM_FUNCTIONS

META = {
    "rule": "one case = one symbolic path through simulate() followed by a cube-chosen sequence of insert_absence_time_list(L) / remove_absence_time_list() "
            "with symbolic index lists (step 0, duplicates and indices beyond the end included); non-trivial = at least one index applied inside the run; distinct by concrete logs and applied indices",
    "functions": ["BaseProject.insert_absence_time_list/remove_absence_time_list", "the insert_/remove_absence_time_list methods of BaseWorkflow, BaseTask, BaseProduct, BaseComponent, "
                  "BaseOrganization, BaseTeam, BaseWorker, BaseWorkplace, BaseFacility"] + SIM_FUNCTIONS[:3],
    "stubs": STUB_NOTES,
    "assumptions": profiles.ASSUMPTIONS + ["per-step logs found by reflection (attributes ending in _record_list, _id_record, cost_list)"],
    "bounds": {"quick": {"index list": "<= 2 entries in 0..time+2", "ops": "<= 2", "tasks": "2-3"}, "thorough": {"index list": "<= 3 entries", "ops": "<= 3"}},
    "outside": profiles.OUTSIDE + ["negative indices", "workflows containing BaseSubProjectTask (see known findings)"],
}
REQUIRED_COVERS = {"any": ["insert:step0", "insert:beyond-end", "insert:duplicate", "insert:inside", "remove:applied", "roundtrip", "after-backward"]}


def check_aligned(M, ctx, where):
    T = M.project.time
    lens = log_lengths(M)
    vals = set(lens.values())
    for k, n in lens.items():
        if n != T:
            sk = short_key(k)
            if k.startswith("task:") and type(M.tasks[int(k.split(".")[0][5:])]).__name__ == "BaseSubProjectTask":
                sk = "subprojecttask." + sk.split(".", 1)[1]
            ctx.fail("C18:%s:length-vs-time:%s" % (where, sk))
            ctx.notes.setdefault("misaligned", "%s len=%d time=%s (%s)" % (k, n, T, where))
    return len(vals) <= 1


def edit(p, ctx):
    spec = p["spec"]
    ops = p["ops"]
    with Sim(ctx):
        M = build(spec, p, ctx.symbolic)
        if p.get("backward"):
            ok, r = ctx.call(M.project.backward_simulate, **sim_kwargs(M))
            ctx.cover("after-backward")
        else:
            ok, r = ctx.call(M.project.simulate, **sim_kwargs(M))
        if not ok:
            ctx.aborted = exc_tag(r)
            return
        T0 = M.project.time
        had_absence = any(True for a in M.project.absence_time_list if 0 <= a < T0)
        if any(True for a in M.project.absence_time_list if a < 0):
            ctx.fail("C18:negative-step-registered-as-absence")
        d0 = dump(M)
        applied_any = False
        for oi, op in enumerate(ops):
            where = "%d:%s" % (oi, op[0])
            before_T = M.project.time
            before = dump(M)
            if op[0] == "insert":
                abs_before = ctx.c(list(M.project.absence_time_list))
                L = [val(x, p) for x in op[1]]
                ok, r = ctx.call(M.project.insert_absence_time_list, list(L))
                if not ok:
                    ctx.fail("C18:insert-raised:%s" % exc_tag(r))
                    return
                Lc = ctx.c(L)
                if 0 in Lc:
                    ctx.cover("insert:step0")
                if any(x >= before_T for x in Lc):
                    ctx.cover("insert:beyond-end")
                if len(set(Lc)) < len(Lc):
                    ctx.cover("insert:duplicate")
                if any(0 < x < before_T for x in Lc):
                    ctx.cover("insert:inside")
                    applied_any = True
                check_aligned(M, ctx, "insert")
                # positions of the inserted steps, recomputed independently (ascending insertion, indices at or beyond
                # the current end are ignored, indices already listed as absence steps are skipped)
                marks = [False] * ctx.c(before_T)
                for s_ in sorted(x for x in Lc if x not in abs_before):
                    if s_ < len(marks):
                        marks.insert(s_, True)
                if M.project.time != len(marks):
                    ctx.fail("C18:insert:time-not-grown-by-applied-steps")
                for t, m in enumerate(marks):
                    if not m or t >= M.project.time:
                        continue
                    if t < len(M.project.cost_list) and M.project.cost_list[t] != 0:
                        ctx.fail("C18:inserted-step-has-cost")
                    for wk in M.workers:
                        if t < len(wk.cost_list) and wk.cost_list[t] != 0:
                            ctx.fail("C18:inserted-step-has-cost")
                    for cp in M.comps:
                        if t < len(cp.state_record_list) and int(cp.state_record_list[t]) == 2:
                            ctx.fail("C18:inserted-step-logged-working:component")
                    for tk in M.tasks:
                        if type(tk).__name__ == "BaseSubProjectTask":
                            continue  # its logs are not edited at all (listed known finding): indices do not line up
                        if t < len(tk.state_record_list) and int(tk.state_record_list[t]) == 2:
                            ctx.fail("C18:inserted-step-logged-working:task")
                        if t == 0 and len(tk.remaining_work_amount_record_list) > 0:
                            ti_ = M.tasks.index(tk)
                            if tk.remaining_work_amount_record_list[0] != M.work[ti_] * (1 - M.prog[ti_] / 2):
                                ctx.fail("C18:inserted-step-changes-remaining-work")
                        rl = tk.remaining_work_amount_record_list
                        if 0 < t < len(rl) and rl[t] != rl[t - 1]:
                            ctx.fail("C18:inserted-step-changes-remaining-work")
                        al = tk.allocated_worker_id_record
                        if 0 < t < len(al) and al[t] is not None and al[t] != al[t - 1]:
                            ctx.fail("C18:inserted-step-changes-allocation")
            elif op[0] == "remove":
                n_in = sum(1 for a in M.project.absence_time_list if 0 <= a < before_T)
                ok, r = ctx.call(M.project.remove_absence_time_list)
                if not ok:
                    ctx.fail("C18:remove-raised:%s" % exc_tag(r))
                    return
                check_aligned(M, ctx, "remove")
                if n_in:
                    ctx.cover("remove:applied")
                if list(M.project.absence_time_list) != []:
                    ctx.fail("C18:remove:absence-list-not-cleared")
        # insert then remove on an absence-free result restores the logs
        if ops[-1][0] == "remove" and all(o[0] == "insert" for o in ops[:-1]) and len(ops) >= 2 and not had_absence and not ctx.fails:
            k = diff_dumps(d0, dump(M))
            if k is not None:
                ctx.fail("C18:roundtrip-differs:%s" % short_key(k))
                ctx.notes["differs_at"] = k
            ctx.cover("roundtrip")
    ctx.sig = (concrete_sig(M), repr(ops))
    ctx.nontrivial = applied_any


def obligations(tier, seed):
    thorough = tier == "thorough"
    obs = []
    members = []
    members.append(("wf2teams", {"tasks": [{"w": "$w0"}, {"w": "$w1"}], "edges": [[0, 1, 0]],
                                 "teams": [{"targets": [0, 1], "workers": [{"skills": {"0": 1, "1": 1}, "cost": 2}]}, {"targets": [1], "workers": [{"skills": {"1": 1}, "cost": 3}]}],
                                 "run": {"max_time": 10, "abs": ["$pa0"]}}, [["w0", 1, 3], ["w1", 1, 2], ["pa0", 0, 6]], {}))
    members.append(("progress", {"tasks": [{"w": "$w0", "g": 1}, {"w": "$w1", "g": "$g1"}], "edges": [[0, 1, 0]], "teams": profiles.layout_workers("shared1", 2),
                                 "run": {"max_time": 10, "abs": ["$pa0"]}}, [["w0", 2, 4], ["w1", 1, 2], ["g1", 0, 2], ["pa0", 0, 6]], {}))
    fac = [ob for ob in profiles.p_product("F1", thorough) if "wps=2/links=0>1/wprule=0/fs" in ob["name"]][0]
    spec = dict(fac["cube"]["spec"])
    members.append(("prod", spec, [["w0", 1, 2], ["w1", 1, 2]], {"z0": 1, "z1": 1, "cap0": 1, "cap1": 1, "fs0": 1, "fs1": 1}))
    members.append(("subtask", {"tasks": [{"w": "$w0"}, {"w": "$w1", "subproject": True}], "edges": [[0, 1, 0]],
                                "teams": profiles.layout_workers("shared1", 2), "run": {"max_time": 10, "abs": ["$pa0"]}}, [["w0", 1, 2], ["w1", 1, 2], ["pa0", 0, 6]], {}))
    # a team without workers and a workplace without facilities still carry a cost log that must stay aligned
    members.append(("empty-units", {"tasks": [{"w": "$w0"}, {"w": "$w1"}], "edges": [[0, 1, 0]],
                                    "teams": [{"targets": [0, 1], "workers": [{"skills": {"0": 1, "1": 1}, "cost": 2}]}, {"targets": [1], "workers": []}],
                                    "wps": [{"targets": [], "cap": 1, "facs": []}],
                                    "run": {"max_time": 10, "abs": ["$pa0"]}}, [["w0", 1, 3], ["w1", 1, 2], ["pa0", 0, 6]], {}))
    seqs = [
        [["insert", ["$i0"]]], [["insert", ["$i0", "$i1"]]], [["insert", ["$i0"]], ["remove"]], [["insert", ["$i0", "$i1"]], ["remove"]],
        [["remove"]], [["remove"], ["insert", ["$i0"]]], [["insert", ["$i0"]], ["insert", ["$i1"]]],
    ]
    if thorough:
        seqs += [[["insert", ["$i0", "$i1", "$i2"]], ["remove"]], [["insert", ["$i0"]], ["remove"], ["insert", ["$i1"]]], [["insert", ["$i0"]], ["insert", ["$i1"]], ["remove"]]]
    seqs.append([["insert", ["$i0"]], ["insert", ["$i1", "$i2"]], ["remove"]])
    seqs.append([["insert", ["$i0"]], ["insert", ["$i1", "$i2", "$i3"]], ["remove"]])
    members.append(("wf-backward", members[0][1], [["w0", 1, 2], ["w1", 1, 2], ["pa0", 0, 6]], {"backward": True}))
    for mname, spec, params, consts in members:
        for ops in (seqs if mname not in ("subtask", "wf-backward", "empty-units") else (seqs[:1] + seqs[4:5] + (seqs[2:3] if mname == "empty-units" else []))):
            if len(ops) == 3 and mname != "wf2teams" and not thorough:
                continue
            names = sorted({x[1:] for o in ops if len(o) > 1 for x in o[1]})
            pr = list(params) + [[n, 0, (8 if thorough else 7) if len(names) < 4 else 5] for n in names]
            if len(names) == 4:
                pr = [[n, lo, hi] if n != "pa0" else [n, 6, 6] for n, lo, hi in pr]
            obs.append({"name": "edit/%s/%s" % (mname, ">".join(o[0] + (str(len(o[1])) if len(o) > 1 else "") for o in ops)), "harness": "edit",
                        "cube": dict(consts, spec=spec, ops=ops), "params": pr, "timeout": 900 if thorough else 150, "engine": "zsym"})
    return profiles.split_param(obs, "i0")
