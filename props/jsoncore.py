"""JSON I/O for harnesses: in-memory contract stub for symbolic runs, real files for replays (DESIGN §2.4)."""
import builtins
import enum
import os
import shutil
import tempfile

from model.family import Model


def normalise(x):
    """What json.dump + json.load do to a value (RFC 8259 / json docs): tuples become lists, dict keys strings,
    IntEnum members ints; finite numbers round-trip exactly (repr round trip).  Solver variables pass through."""
    from engine.zsym import SymNum, SymBool

    if isinstance(x, (SymNum, SymBool)):
        return x
    if isinstance(x, enum.IntEnum):
        return int(x)
    if x is None or isinstance(x, (bool, int, float, str)):
        return x
    if isinstance(x, (list, tuple)):
        return [normalise(i) for i in x]
    if isinstance(x, dict):
        out = {}
        for k, v in x.items():
            if isinstance(k, bool):
                k = "true" if k else "false"
            elif k is None:
                k = "null"
            elif isinstance(k, (int, float)):
                k = str(k)
            elif not isinstance(k, str):
                raise TypeError("keys must be str, int, float, bool or None, not %s" % type(k).__name__)
            out[k] = normalise(v)
        return out
    raise TypeError("Object of type %s is not JSON serializable" % type(x).__name__)


class _MemFile:
    def __init__(self, store, path, mode):
        self.store, self.path, self.mode = store, path, mode

    def __enter__(self):
        return self

    def __exit__(self, *a):
        return False

    def close(self):
        pass


class _MemJson:
    def __init__(self, store):
        self.store = store

    def dump(self, obj, f, **kw):
        self.store[f.path] = normalise(obj)

    def load(self, f):
        if f.path not in self.store:
            raise FileNotFoundError(f.path)
        return normalise(self.store[f.path])


def _sym_float(x):
    from engine.zsym import SymNum

    if isinstance(x, SymNum):
        return x  # float() of a real number is that number; keeps the export symbolic instead of enumerating values
    return builtins.float(x)


class JsonIO:
    def __init__(self, ctx):
        self.ctx = ctx
        self.store = {}
        self.dir = None

    def __enter__(self):
        import pDESy.model.base_project as bp
        import pDESy.model.base_task as bt

        if self.ctx.symbolic:
            self._saved = (bp.json, bp.__dict__.get("open"), bt.__dict__.get("float"))
            bp.json = _MemJson(self.store)
            store = self.store
            bp.open = lambda path, mode="r", **kw: _MemFile(store, path, mode)
            bt.float = _sym_float
        else:
            self.dir = tempfile.mkdtemp(prefix="vjson")
        return self

    def __exit__(self, *a):
        import pDESy.model.base_project as bp
        import pDESy.model.base_task as bt

        if self.ctx.symbolic:
            bp.json = self._saved[0]
            if self._saved[1] is None:
                del bp.open
            else:
                bp.open = self._saved[1]
            if self._saved[2] is None:
                del bt.float
            else:
                bt.float = self._saved[2]
        elif self.dir:
            shutil.rmtree(self.dir, ignore_errors=True)
        return False

    def path(self, name):
        return name if self.ctx.symbolic else os.path.join(self.dir, name)

    def content(self, path):
        """The JSON value stored at path."""
        if self.ctx.symbolic:
            return self.store[path]
        import json

        with open(path) as f:
            return json.load(f)


def restore_family_view(prj, like):
    """A Model view (same ordering as `like`) onto a project that was read from JSON."""
    M = Model()
    M.spec, M.run, M.edges, M.work, M.prog = like.spec, like.run, like.edges, like.work, like.prog
    M.wteam, M.wspec, M.fwp, M.fspec = like.wteam, like.wspec, like.fwp, like.fspec
    M.project, M.org, M.workflow, M.product = prj, prj.organization, prj.workflow, prj.product

    def by_id(objs, ident):
        r = [o for o in objs if o.ID == ident]
        if len(r) != 1:
            raise KeyError(ident)
        return r[0]

    M.tasks = [by_id(prj.workflow.task_list, t.ID) for t in like.tasks]
    M.comps = [by_id(prj.product.component_list, c.ID) for c in like.comps]
    M.teams = [by_id(prj.organization.team_list, t.ID) for t in like.teams]
    M.wps = [by_id(prj.organization.workplace_list, w.ID) for w in like.wps]
    allw = [w for t in prj.organization.team_list for w in t.worker_list]
    allf = [f for w in prj.organization.workplace_list for f in w.facility_list]
    M.workers = [by_id(allw, w.ID) for w in like.workers]
    M.facs = [by_id(allf, f.ID) for f in like.facs]
    for i, t in enumerate(M.tasks):
        t._idx = i
    for i, w in enumerate(M.workers):
        w._idx = i
    for i, f in enumerate(M.facs):
        f._idx = i
    return M


def deep_diff(a, b, path=""):
    """First path at which two JSON values differ (None when equal)."""
    if isinstance(a, dict) and isinstance(b, dict):
        for k in sorted(set(a) | set(b)):
            if k not in a or k not in b:
                return "%s.%s(missing)" % (path, k)
            r = deep_diff(a[k], b[k], "%s.%s" % (path, k))
            if r:
                return r
        return None
    if isinstance(a, list) and isinstance(b, list):
        if len(a) != len(b):
            return path + ".len"
        for i, (x, y) in enumerate(zip(a, b)):
            r = deep_diff(x, y, "%s[%d]" % (path, i))
            if r:
                return r
        return None
    if isinstance(a, (dict, list)) or isinstance(b, (dict, list)):
        return path + "(type)"
    if (a is None) != (b is None):
        return path
    if a is None:
        return None
    if isinstance(a, str) or isinstance(b, str):
        return None if (isinstance(a, str) and isinstance(b, str) and a == b) else path
    return None if a == b else path
