"""C14 - oracle over observed simulate() runs (see props/oracles.py:c14)."""
from props.simcore import run_sim, SIM_FUNCTIONS
from props import profiles, oracles
from model.stubs import STUB_NOTES

META = {
    "rule": "one case = one symbolic path of simulate() on a family member (a class of work amounts/skills/costs/absence steps with the same schedule); "
            "non-trivial by the oracle's own rule (work allocated / >= 2 steps); distinct by the concrete state and allocation logs",
    "functions": SIM_FUNCTIONS,
    "stubs": STUB_NOTES,
    "assumptions": profiles.ASSUMPTIONS,
    "bounds": profiles.BOUNDS_TEXT,
    "outside": profiles.OUTSIDE,
}

REQUIRED_COVERS = {"any": profiles.REQUIRED["C14"] + ["second-run", "backward-logs", "continued-run", "edited-logs"]}

CROSSCHECK = {"thorough": 8}


def sim(p, ctx):
    M = run_sim(p, ctx)
    oracles.c14(M, ctx)


def obligations(tier, seed):
    return profiles.obligations_for("C14", tier)


def sim_history(p, ctx):
    """The relation (with its temporal clauses, judged on the whole logs) across a run that is stopped and continued."""
    from props.simcore import run_sim_history

    M = run_sim_history(p, ctx, p["mode"])
    if M.exc is None:
        oracles.c14(M, ctx)
        ctx.cover("continued-run")


def edited(p, ctx):
    """The per-step relation in the logs after absence steps were inserted into the finished run (logs only; no live states)."""
    from props.simcore import run_sim
    from model.observe import Observer

    M = run_sim(p, ctx)
    if M.exc is not None:
        return
    ok, r = ctx.call(M.project.insert_absence_time_list, [p["i0"], p["i0"] + 1])
    if not ok:
        return
    M.obs = Observer(M)
    oracles.c14(M, ctx)
    ctx.cover("edited-logs")


def repeat(p, ctx):
    """The relation also holds in a second simulate() on the same project (state of the previous run must not leak)."""
    from props.simcore import run_sim
    from model.family import sim_kwargs
    from model.observe import Observer
    from model.stubs import numpy_stub
    import warnings

    M = run_sim(p, ctx)
    obs = Observer(M)
    with numpy_stub(ctx.symbolic), obs.installed(), warnings.catch_warnings():
        warnings.simplefilter("ignore")
        ok, r = ctx.call(M.project.simulate, **sim_kwargs(M))
    M.obs = obs
    if ok:
        oracles.c14(M, ctx)
        ctx.cover("second-run")


def backward(p, ctx):
    """The relation in the logs of a backward run (reversed or not), product with a component that has two parents."""
    import warnings
    from model.family import build, sim_kwargs
    from model.observe import Observer, concrete_sig
    from model.stubs import numpy_stub

    M = build(p["spec"], p, ctx.symbolic)
    with numpy_stub(ctx.symbolic), warnings.catch_warnings():
        warnings.simplefilter("ignore")
        ok, r = ctx.call(M.project.backward_simulate, reverse_log_information=bool(p["rev"]), **sim_kwargs(M))
    M.obs = Observer(M)  # no live snapshots: the oracle judges the logs
    if ok:
        oracles.c14(M, ctx, logs_in_run_order=not p["rev"])
        ctx.cover("backward-logs")
    ctx.sig = (concrete_sig(M), p["rev"])


def unit(p, ctx):
    """BaseComponent.check_state over up to three consecutive arbitrary task-state vectors S1 <= S2 <= S3
    (each task only moves forward along NONE, READY, WORKING, FINISHED, as C01 guarantees), from initialize()."""
    from pDESy.model.base_component import BaseComponent
    from pDESy.model.base_task import BaseTask
    from props.simcore import NONE, READY, WORKING, FINISHED

    n = p["n"]
    rounds = p["rounds"]
    tasks = [BaseTask("t%d" % i, ID="t%d" % i) for i in range(n)]
    c = BaseComponent("c", ID="c")
    for t in tasks:
        c.append_targeted_task(t)
    for t in tasks:
        t.state = 0
    c.initialize()
    was_not_none = False
    was_fin = False
    prev = [0] * n
    sig = []
    for r in range(rounds):
        ranks = [p["r%d_%d" % (r, i)] for i in range(n)]
        for i in range(n):
            if ranks[i] < prev[i]:
                ctx.notes["skipped"] = "non-monotone vector (outside the reachable histories)"
                ctx.sig = ("skip",)
                return
        prev = ranks
        codes = []
        for i in range(n):
            code = -1 if ranks[i] == 3 else ranks[i]
            tasks[i].state = code
            codes.append(code)
        ok, e = ctx.call(c.check_state)
        if not ok:
            ctx.fail("C14:unit:check_state-raised")
            return
        cs = int(c.state)
        allfin = all(x == FINISHED for x in codes)
        if (cs == FINISHED) != allfin:
            ctx.fail("C14:unit:finished-iff-all-finished")
        if any(x == WORKING for x in codes) and cs != WORKING:
            ctx.fail("C14:unit:working-task-but-component-not-working")
        if any(x in (READY, WORKING) for x in codes) and cs == NONE:
            ctx.fail("C14:unit:active-task-but-component-none")
        if was_not_none and cs == NONE:
            ctx.fail("C14:unit:returned-to-none")
        if was_fin and cs != FINISHED:
            ctx.fail("C14:unit:left-finished")
        was_not_none = was_not_none or cs != NONE
        was_fin = was_fin or cs == FINISHED
        sig.append((tuple(int(x) for x in codes), cs))
    if n == 0:
        ctx.cover("component-without-task")
    if n >= 2:
        ctx.cover("component-with-two-tasks")
    ctx.sig = tuple(sig)
    ctx.nontrivial = len(set(s[1] for s in sig)) > 1 or n == 0


_sim_obligations = obligations


def obligations(tier, seed):
    obs = _sim_obligations(tier, seed)
    thorough = tier == "thorough"
    for ob in list(obs):
        if "/fs" in ob["name"] and ("wps=2" in ob["name"] or thorough):
            obs.append(dict(ob, harness="repeat", name="repeat/" + ob["name"]))
    # a run that is stopped and continued (in memory and through a file) while a component has FINISHED and NONE tasks only
    f3 = [ob for ob in profiles.p_product("F3", thorough, timeout=900 if thorough else 150) if "wps=2" in ob["name"] and ("wprule=0" in ob["name"] or thorough)]
    nr = {"cap0": (1, 2), "cap1": (1, 2), "fs0": (1, 1), "fs1": (1, 1), "z0": (1, 1), "z1": (1, 1)}
    obs += [dict(ob, engine="zsym") for ob in profiles.with_history(f3, "resume", 5, nr) + profiles.with_history([ob for ob in f3 if "/fs" in ob["name"]], "json-resume", 5, nr)]
    # absence steps inserted afterwards; members in which a component's last work is done at a project-wide absence step
    # (flag set, automatic task), and a component whose tasks are all complete from the start
    ed = [ob for ob in profiles.p_product("F2", thorough, timeout=900 if thorough else 150, absence=True, flag=True, auto_second=True) if "wps=2" in ob["name"] and ("wprule=0" in ob["name"] or thorough)]
    spec = {"tasks": [{"w": "$w0", "auto": True, "rate": 1}, {"w": "$w1", "comp": 0}, {"w": 3, "comp": 1}, {"w": 1, "g": 2, "comp": 2}], "edges": [[0, 1, 2]],
            "comps": [{"size": 1}, {"size": 1}, {"size": 1}], "teams": profiles.layout_workers("private", 4), "run": {"max_time": 10, "abs": ["$pa0", "$pa1"], "flag": True}}
    ed.append({"name": "ff-behind-auto-task", "harness": "sim", "cube": {"spec": spec}, "params": [["w0", 1, 3], ["w1", 1, 2], ["pa0", 0, 3], ["pa1", 1, 4]], "pre": "pa0 < pa1",
               "timeout": 900 if thorough else 150})
    for ob in ed:
        narrow = {"cap0": (1, 2), "cap1": (1, 2), "fs0": (1, 1), "fs1": (1, 1), "z0": (1, 1), "z1": (1, 1)}
        pr = [[n, max(lo, narrow[n][0]), min(hi, narrow[n][1])] if n in narrow else [n, lo, hi] for n, lo, hi in ob["params"]]
        obs.append(dict(ob, name="edited/" + ob["name"], harness="edited", engine="zsym", params=pr + [["i0", 0, 5]]))
    # a worker with a quality skill (the component's error counter rises) and a component with two parents, backward
    for rev in (0, 1):
        spec = {"tasks": [{"w": "$w0", "comp": 0}, {"w": "$w1", "comp": 1}, {"w": "$w2", "comp": 2}], "edges": [[2, 0, 0], [2, 1, 0]],
                "comps": [{"size": 1, "children": [2]}, {"size": 1, "children": [2]}, {"size": 1}],
                "teams": [{"targets": [0, 1, 2], "workers": [{"skills": {"0": 1, "1": 1, "2": 1}, "qskills": {"0": 2}}, {"skills": {"0": 1, "1": 1, "2": 1}}]}],
                "run": {"max_time": 12}}
        obs.append({"name": "backward/two-parents/rev=%d" % rev, "harness": "backward", "cube": {"spec": spec, "rev": rev},
                    "params": [["w0", 1, 3], ["w1", 1, 3], ["w2", 1, 3]], "timeout": 600 if thorough else 120, "engine": "zsym"})
    spec = {"tasks": [{"w": "$w0", "comp": 0}, {"w": "$w1", "comp": 0}], "edges": [[0, 1, 0]], "comps": [{"size": 1}],
            "teams": [{"targets": [0, 1], "workers": [{"skills": {"0": 1, "1": 1}, "qskills": {"0": 2, "1": 1}}]}], "run": {"max_time": 12}}
    obs.append({"name": "quality/one-component", "harness": "sim", "cube": {"spec": spec}, "params": [["w0", 1, 3], ["w1", 1, 3]],
                "timeout": 600 if thorough else 120, "engine": "zsym"})
    for n in range(0, 4 if thorough else 3 + 1):
        for rounds in ((1, 2, 3) if n <= 2 or thorough else (1, 2)):
            params = [["r%d_%d" % (r, i), 0, 3] for r in range(rounds) for i in range(n)]
            obs.append({"name": "unit/n=%d/rounds=%d" % (n, rounds), "harness": "unit", "cube": {"n": n, "rounds": rounds}, "params": params,
                        "timeout": 600 if thorough else 120, "engine": "zsym"})
    return obs
