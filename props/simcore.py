"""Shared simulation harness: build a family member, run the real simulate() under the phase observer."""
import warnings

from engine.sym import exc_tag
from model.family import build, sim_kwargs
from model.observe import Observer, concrete_sig
from model.stubs import numpy_stub

NONE, READY, WORKING, FINISHED = 0, 1, 2, -1
RANK = {NONE: 0, READY: 1, WORKING: 2, FINISHED: 3}
W_FREE, W_WORKING, W_ABSENCE = 0, 1, -1
PHASES = ("updated", "allocated", "performed", "recorded")

SIM_FUNCTIONS = [
    "BaseProject.simulate/__update/__allocate/__perform/__record", "BaseWorkflow.check_state/__check_ready/__check_working/__check_finished",
    "BaseWorkflow.update_PERT_data", "BaseWorkflow.perform/record", "BaseTask.perform/can_add_resources/record_*", "BaseWorker/BaseFacility.get_work_amount_skill_progress/has_workamount_skill/check_update_state_from_absence_time_list",
    "BaseOrganization/BaseTeam/BaseWorkplace.add_labor_cost/record", "BaseProduct.check_state/check_removing_placed_workplace", "BaseComponent.check_state/is_ready",
    "base_priority_rule.sort_task_list/sort_worker_list/sort_facility_list/sort_workplace_list",
]


def run_sim(p, ctx, spec=None, inject=None, want=PHASES, hprio=None):
    spec = spec if spec is not None else p["spec"]
    M = build(spec, p, ctx.symbolic, hprio=hprio)
    obs = Observer(M, inject=inject, want=want)
    with numpy_stub(ctx.symbolic), obs.installed(), warnings.catch_warnings():
        warnings.simplefilter("ignore")
        ok, r = ctx.call(M.project.simulate, **sim_kwargs(M))
    M.obs = obs
    M.exc = None if ok else r
    if not ok:
        ctx.aborted = exc_tag(r)
        ctx.notes["aborted"] = ctx.aborted
    ctx.sig = concrete_sig(M)
    return M


def snapshots(M):
    """All phase snapshots in chronological order: (step, phase, snapshot)."""
    for st in M.obs.steps:
        for ph in PHASES:
            if ph in st:
                yield st["t"], ph, st[ph]


def full_steps(M):
    """Steps that were completely simulated (all four phases present)."""
    return [st for st in M.obs.steps if "recorded" in st]


def is_abs_step(M, t):
    """Log index t is a project-wide absence step (index k stands for time k * unit_time)."""
    tt = t * M.run.get("unit_time", 1)
    for a in M.run["abs"]:
        if a == tt:
            return True
    return False
