"""Shared simulation harness: build a family member, run the real simulate() under the phase observer."""
import warnings

from engine.sym import exc_tag
from model.family import build, sim_kwargs
from model.observe import Observer, concrete_sig
from model.stubs import numpy_stub

NONE, READY, WORKING, FINISHED = 0, 1, 2, -1
RANK = {NONE: 0, READY: 1, WORKING: 2, FINISHED: 3}
W_FREE, W_WORKING, W_ABSENCE = 0, 1, -1
PHASES = ("updated", "allocated", "performed", "recorded")

SIM_FUNCTIONS = [
    "BaseProject.simulate/__update/__allocate/__perform/__record", "BaseWorkflow.check_state/__check_ready/__check_working/__check_finished",
    "BaseWorkflow.update_PERT_data", "BaseWorkflow.perform/record", "BaseTask.perform/can_add_resources/record_*", "BaseWorker/BaseFacility.get_work_amount_skill_progress/has_workamount_skill/check_update_state_from_absence_time_list",
    "BaseOrganization/BaseTeam/BaseWorkplace.add_labor_cost/record", "BaseProduct.check_state/check_removing_placed_workplace", "BaseComponent.check_state/is_ready",
    "base_priority_rule.sort_task_list/sort_worker_list/sort_facility_list/sort_workplace_list",
]


def run_sim(p, ctx, spec=None, inject=None, want=PHASES, hprio=None):
    spec = spec if spec is not None else p["spec"]
    M = build(spec, p, ctx.symbolic, hprio=hprio)
    obs = Observer(M, inject=inject, want=want)
    with numpy_stub(ctx.symbolic), obs.installed(), warnings.catch_warnings():
        warnings.simplefilter("ignore")
        if M.run.get("backward"):
            # the observed call is backward_simulate() on a model WITHOUT dependencies (reversing nothing): every step of the inner run must
            # obey the same allocation rules as a forward run with the same arguments; logs are left in simulated order
            assert not M.edges, "run.backward is only meaningful for the oracles on dependency-free members"
            ok, r = ctx.call(M.project.backward_simulate, reverse_log_information=False, **sim_kwargs(M))
            ctx.cover("run:backward")
        else:
            ok, r = ctx.call(M.project.simulate, **sim_kwargs(M))
    M.obs = obs
    M.exc = None if ok else r
    if not ok:
        ctx.aborted = exc_tag(r)
        ctx.notes["aborted"] = ctx.aborted
    ctx.sig = concrete_sig(M)
    return M


def snapshots(M):
    """All phase snapshots in chronological order: (step, phase, snapshot)."""
    for st in M.obs.steps:
        for ph in PHASES:
            if ph in st:
                yield st["t"], ph, st[ph]


def full_steps(M):
    """Steps that were completely simulated (all four phases present)."""
    return [st for st in M.obs.steps if "recorded" in st]


def is_abs_step(M, t):
    """Log index t is a project-wide absence step (index k stands for time k * unit_time)."""
    tt = t * M.run.get("unit_time", 1)
    for a in M.run["abs"]:
        if a == tt:
            return True
    return False


def run_sim_history(p, ctx, mode):
    """Variants of run_sim in which the observed simulate() call is not the first thing that happens to the model.

    mode = "cut+state"   : simulate(max_time=$k) first, then the observed call with initialize_state_info=True, initialize_log_info=False
    mode = "cut+full"    : simulate(max_time=$k) first, then the observed (default, fully initialising) call
    mode = "resume"      : simulate(max_time=$k) first, then the observed call continues it (both initialisation flags off)
    mode = "json-resume" : simulate(max_time=$k), write_simple_json, read_simple_json into a new project, observed call continues it there
    mode = "edited-resume": simulate(max_time=$k) with every personal absence list empty, then the model's own lists are put in place and
                            the observed call continues the run (both initialisation flags off)
    mode = "edited-teams" : a complete first run with two workers of different teams exchanged, then put back
    mode = "late-edges"   : a complete first run without any dependency; the dependencies are then added with extend_input_task_list
    mode = "edited-model" : a complete first run on an edited model (last team not yet in the organization, skill maps rotated among the
                            workers / facilities, personal absence lists [$k]); then the model's own values are put in place and the observed
                            (default, fully initialising) call follows on the same objects
    The oracles then judge the observed call only (its steps carry the project's own clock)."""
    from props.histcore import clear_mutable_defaults

    spec = p["spec"]
    M = build(spec, p, ctx.symbolic)
    kw = sim_kwargs(M)
    clear_mutable_defaults()
    with numpy_stub(ctx.symbolic), warnings.catch_warnings():
        warnings.simplefilter("ignore")
        if mode.startswith("after-backward"):
            # a backward run first ("after-backward": logs not reversed; "after-backward-due": with the due-time helper tasks)
            ok1, r1 = ctx.call(M.project.backward_simulate, considering_due_time_of_tail_tasks=mode.endswith("due"),
                               reverse_log_information=bool(p["k"] % 2), **kw)
        elif mode == "changed-absence":
            # a first run with other personal absence steps, which are then replaced by the model's own
            saved = [list(w.absence_time_list) for w in M.workers]
            for w in M.workers:
                w.absence_time_list = [p["k"]]
            ok1, r1 = ctx.call(M.project.simulate, **kw)
            for w, sv in zip(M.workers, saved):
                w.absence_time_list[:] = sv  # edited in place: the list object stays the same
        elif mode == "edited-resume":
            res = M.workers + M.facs
            saved = [list(r.absence_time_list) for r in res]
            for r in res:
                del r.absence_time_list[:]
            ok1, r1 = ctx.call(M.project.simulate, **dict(kw, max_time=p["k"]))
            for r, sv in zip(res, saved):
                r.absence_time_list.extend(sv)  # edited in place: the list object stays the same
        elif mode == "edited-model":
            res = M.workers + M.facs
            saved_abs = [list(r.absence_time_list) for r in res]
            saved_sk = [dict(r.workamount_skill_mean_map) for r in res]
            for r in res:
                r.absence_time_list[:] = [p["k"]]
            for grp in (M.workers, M.facs):
                rot = [dict(grp[(i + 1) % len(grp)].workamount_skill_mean_map) for i in range(len(grp))]
                for r, m in zip(grp, rot):
                    r.workamount_skill_mean_map.clear()
                    r.workamount_skill_mean_map.update(m)
            late_team = M.org.team_list.pop() if len(M.org.team_list) >= 2 else None
            ok1, r1 = ctx.call(M.project.simulate, **kw)
            if late_team is not None:
                M.org.team_list.append(late_team)
            # the model's own values are put back by editing the same list / dict objects in place
            for r, sa, sk in zip(res, saved_abs, saved_sk):
                r.absence_time_list[:] = sa
                r.workamount_skill_mean_map.clear()
                r.workamount_skill_mean_map.update(sk)
        elif mode == "edited-teams":
            # a complete first run in which the first workers of the first and the last team have changed places
            ta, tb = M.org.team_list[0], M.org.team_list[-1]
            swap = ta is not tb and len(ta.worker_list) > 0 and len(tb.worker_list) > 0
            if swap:
                wa, wb = ta.worker_list[0], tb.worker_list[0]
                ta.worker_list[0], tb.worker_list[0] = wb, wa
                wa.team_id, wb.team_id = tb.ID, ta.ID
            ok1, r1 = ctx.call(M.project.simulate, **kw)
            if swap:
                ta.worker_list[0], tb.worker_list[0] = wa, wb
                wa.team_id, wb.team_id = ta.ID, tb.ID
        elif mode == "late-edges":
            # a complete first run without the dependencies, which are then added with extend_input_task_list (the bulk editing call)
            from pDESy.model.base_task import BaseTaskDependency

            for t in M.tasks:
                del t.input_task_list[:]
                del t.output_task_list[:]
            ok1, r1 = ctx.call(M.project.simulate, **kw)
            for (a, b, kd) in M.edges:
                M.tasks[b].extend_input_task_list([M.tasks[a]], kd if ctx.symbolic else BaseTaskDependency(int(kd)))
        else:
            ok1, r1 = ctx.call(M.project.simulate, **dict(kw, max_time=p["k"]))
        if not ok1:
            ctx.aborted = exc_tag(r1)
            M.obs = Observer(M)
            M.exc = r1
            ctx.sig = ("first-call-raised",)
            return M
        if mode == "json-resume":
            from props.jsoncore import JsonIO, restore_family_view
            from pDESy.model.base_project import BaseProject

            with JsonIO(ctx) as io:
                path = io.path("paused.json")
                okw, rw = ctx.call(M.project.write_simple_json, path)
                C = BaseProject()
                okr, rr = ctx.call(C.read_simple_json, path) if okw else (False, rw)
            if not (okw and okr):
                ctx.aborted = exc_tag(rw if not okw else rr)
                M.obs = Observer(M)
                M.exc = rw if not okw else rr
                ctx.sig = ("json-raised",)
                return M
            M = restore_family_view(C, M)
        kw2 = dict(kw)
        if mode == "cut+state":
            kw2.update(initialize_state_info=True, initialize_log_info=False)
        elif mode in ("resume", "json-resume", "edited-resume"):
            kw2.update(initialize_state_info=False, initialize_log_info=False)
        obs = Observer(M)
        with obs.installed():
            ok, r = ctx.call(M.project.simulate, **kw2)
    M.obs = obs
    M.exc = None if ok else r
    if not ok:
        ctx.aborted = exc_tag(r)
        ctx.notes["aborted"] = ctx.aborted
    ctx.cover("history:" + mode)
    ctx.sig = (mode, ctx.c(p["k"]), concrete_sig(M))
    return M
