"""Oracles over one observed run of simulate() (DESIGN §3.2, §4).

Each oracle is a pure function of (model M with its static spec, phase snapshots M.obs.steps, logs) that calls
ctx.fail(<clause tag>) / ctx.cover(<goal>).  They are written so that, when the property holds, every comparison on a
solver variable has an unsatisfiable false side: they add SMT queries, not paths.
"""
from props.simcore import (NONE, READY, WORKING, FINISHED, W_FREE, W_WORKING, W_ABSENCE, full_steps, is_abs_step)

EPS = 1e-10


# ----------------------------------------------------------------------------------------------- static helpers
def wskill(M, w, ti):
    """Static work-amount skill of worker w for task ti (0 when the entry is missing)."""
    return M.workers[w].workamount_skill_mean_map.get("T%d" % ti, 0)


def fskill(M, f, ti):
    return M.facs[f].workamount_skill_mean_map.get("T%d" % ti, 0)


def w_absent(M, w, t):
    for a in M.workers[w].absence_time_list:
        if a == t:
            return True
    return False


def f_absent(M, f, t):
    for a in M.facs[f].absence_time_list:
        if a == t:
            return True
    return False


def team_targets(M, w, ti):
    return ti in M.spec["teams"][M.wteam[w]].get("targets", [])


def wp_targets(M, f, ti):
    return ti in M.spec["wps"][M.fwp[f]].get("targets", [])


def fixed_w_ok(M, w, ti):
    fx = M.spec["tasks"][ti].get("fixw")
    return fx is None or w in fx


def fixed_f_ok(M, f, ti):
    fx = M.spec["tasks"][ti].get("fixf")
    return fx is None or f in fx


def can_operate(M, w, f):
    return M.workers[w].facility_skill_map.get("F%d" % f, 0) > EPS


def eligible_worker(M, w, ti):
    """Static eligibility of worker w for task ti (skill, team, fixed list)."""
    return wskill(M, w, ti) > EPS and team_targets(M, w, ti) and fixed_w_ok(M, w, ti)


def eligible_facility(M, f, ti):
    return fskill(M, f, ti) > EPS and wp_targets(M, f, ti) and fixed_f_ok(M, f, ti)


def tspec(M, ti):
    return M.spec["tasks"][ti]


def is_working(M, st):
    """Step st is a working step according to the model's project-wide absence list (st["t"] is the project's clock),
    never according to the flag the implementation passed around."""
    for a in M.run["abs"]:
        if a == st["t"]:
            return False
    return True


def started_flags(M):
    """For every step index k: list of booleans 'task i was seen WORKING or FINISHED at or before updated(k)' and
    the same at recorded(k)."""
    n = len(M.tasks)
    cur = [False] * n
    out = []
    for st in M.obs.steps:
        rec = {}
        for ph in ("updated", "allocated", "performed", "recorded"):
            if ph in st:
                for i in range(n):
                    if st[ph]["tstate"][i] in (WORKING, FINISHED):
                        cur[i] = True
                rec[ph] = list(cur)
        out.append(rec)
    return out


# ----------------------------------------------------------------------------------------------- C02
def contribution(M, st, i):
    """Contribution to task i in step st, recomputed from the live allocation at the `allocated` phase."""
    A = st["allocated"]
    t = st["t"]
    ts = tspec(M, i)
    working = is_working(M, st)
    if A["tstate"][i] != WORKING:
        return 0
    if ts.get("auto"):
        if working or M.run["flag"]:
            return M.tasks[i].work_amount_progress_of_unit_step_time
        return 0
    if not working:
        return 0
    total = 0
    if ts.get("nf"):
        ws, fs = A["talloc_w"][i], A["talloc_f"][i]
        # absence is taken from the model's absence lists, not from the implementation's state flags
        for w, f in zip(ws, fs):
            cw = 0 if (w_absent(M, w, t) or not wskill(M, w, i) > EPS) else wskill(M, w, i)
            cf = 0 if (f_absent(M, f, t) or not fskill(M, f, i) > EPS) else fskill(M, f, i)
            total = total + cw * cf
    else:
        for w in A["talloc_w"][i]:
            if w_absent(M, w, t) or not wskill(M, w, i) > EPS:
                continue
            total = total + wskill(M, w, i)
    return total


def c02(M, ctx):
    n = len(M.tasks)
    steps = full_steps(M)
    if M.obs.steps and "updated" in M.obs.steps[0]:
        U0 = M.obs.steps[0]["updated"]
        for i in range(n):
            if U0["rem"][i] != M.work[i] * (1 - M.prog[i] / 2):
                ctx.fail("C02:initial-remaining-work")
    prev_rec = None
    for k, st in enumerate(M.obs.steps):
        U = st["updated"]
        if prev_rec is not None:
            for i in range(n):
                newly_fin = U["tstate"][i] == FINISHED and prev_rec["tstate"][i] != FINISHED
                if newly_fin:
                    if not prev_rec["rem"][i] < EPS:
                        ctx.fail("C02:finished-before-zero")
                    if prev_rec["tstate"][i] != WORKING:
                        ctx.fail("C02:finished-without-working")
                    if U["rem"][i] != 0:
                        ctx.fail("C02:finished-remaining-not-zero")
                    ctx.cover("finish")
                elif U["rem"][i] != prev_rec["rem"][i]:
                    ctx.fail("C02:remaining-changed-in-update")
        if "recorded" not in st:
            break
        A, P, R = st["allocated"], st["performed"], st["recorded"]
        for i in range(n):
            if A["rem"][i] != U["rem"][i]:
                ctx.fail("C02:remaining-changed-in-allocation")
            c = contribution(M, st, i)
            if A["tstate"][i] == WORKING:
                if P["rem"][i] != A["rem"][i] - c:
                    ctx.fail("C02:wrong-progress")
                if len(A["talloc_w"][i]) >= 2:
                    ctx.cover("multi-worker")
                if any(w_absent(M, w, st["t"]) for w in A["talloc_w"][i]) and is_working(M, st):
                    ctx.cover("absent-worker-on-working-task")
            elif P["rem"][i] != A["rem"][i]:
                ctx.fail("C02:non-working-task-progressed")
            if R["rem"][i] != P["rem"][i]:
                ctx.fail("C02:remaining-changed-in-record")
            log = M.tasks[i].remaining_work_amount_record_list
            if st["t"] < len(log):
                if log[st["t"]] != R["rem"][i]:
                    ctx.fail("C02:log-differs-from-live")
                if int(M.tasks[i].state_record_list[st["t"]]) == FINISHED and log[st["t"]] != 0:
                    ctx.fail("C02:finished-logged-nonzero")
        prev_rec = R
    must_finish(M, ctx, "C02")
    ctx.nontrivial = len(steps) >= 2 and any(WORKING in [int(s) for s in t.state_record_list] for t in M.tasks)


def must_finish(M, ctx, pid):
    """A WORKING task with remaining work < eps at the end of step k whose finish gates already held then
    (FF predecessors FINISHED, SF predecessors started, both as of recorded(k)) is FINISHED at updated(k+1).
    Gates that only open inside the same update pass are left free (visiting order, see C09)."""
    sf = started_flags(M)
    steps = M.obs.steps
    for k in range(len(steps) - 1):
        st, nx = steps[k], steps[k + 1]
        if "recorded" not in st or "updated" not in nx:
            continue
        R = st["recorded"]
        for i in range(len(M.tasks)):
            if R["tstate"][i] == WORKING and R["rem"][i] < EPS:
                gates = True
                for (a, b, kd) in M.edges:
                    if b != i:
                        continue
                    if kd == 2 and R["tstate"][a] != FINISHED:
                        gates = False
                    if kd == 3 and not sf[k]["recorded"][a]:
                        gates = False
                if gates and nx["updated"]["tstate"][i] != FINISHED:
                    ctx.fail("%s:zero-task-not-finished-next-step" % pid)
                if gates:
                    ctx.cover("must-finish")


# ----------------------------------------------------------------------------------------------- C03
def c03(M, ctx):
    nT, nW, nF = len(M.tasks), len(M.workers), len(M.facs)
    prev = None
    for st in M.obs.steps:
        for ph in ("updated", "allocated", "recorded"):
            if ph not in st:
                continue
            S = st[ph]
            for w in range(nW):
                if len(S["wassign"][w]) > 1:
                    ctx.fail("C03:worker-on-two-tasks")
                for ti in S["wassign"][w]:
                    if w not in S["talloc_w"][ti]:
                        ctx.fail("C03:worker-lists-task-but-task-not-worker")
            for f in range(nF):
                if len(S["fassign"][f]) > 1:
                    ctx.fail("C03:facility-on-two-tasks")
                for ti in S["fassign"][f]:
                    if f not in S["talloc_f"][ti]:
                        ctx.fail("C03:facility-lists-task-but-task-not-facility")
            for ti in range(nT):
                for w in S["talloc_w"][ti]:
                    if ti not in S["wassign"][w]:
                        ctx.fail("C03:task-lists-worker-but-worker-not-task")
                if len(set(S["talloc_w"][ti])) != len(S["talloc_w"][ti]):
                    ctx.fail("C03:worker-listed-twice")
                for f in S["talloc_f"][ti]:
                    if ti not in S["fassign"][f]:
                        ctx.fail("C03:task-lists-facility-but-facility-not-task")
                if (S["talloc_w"][ti] or S["talloc_f"][ti]) and S["tstate"][ti] not in (READY, WORKING):
                    ctx.fail("C03:non-active-task-holds-resources")
            if ph == "allocated":
                t = st["t"]
                working = is_working(M, st)
                if "working" in st:
                    for w in range(nW):
                        holds = len(S["wassign"][w]) > 0
                        if not working:
                            if S["wstate"][w] != W_ABSENCE:
                                ctx.fail("C03:worker-not-absence-at-project-absence")
                        else:
                            absent = w_absent(M, w, t)
                            exp = W_ABSENCE if absent else (W_WORKING if holds else W_FREE)
                            if S["wstate"][w] != exp:
                                ctx.fail("C03:worker-state-vs-holding")
                            if holds:
                                ctx.cover("worker-holds")
                    for f in range(nF):
                        holds = len(S["fassign"][f]) > 0
                        if not working:
                            if S["fstate"][f] != W_ABSENCE:
                                ctx.fail("C03:facility-not-absence-at-project-absence")
                        else:
                            absent = f_absent(M, f, t)
                            exp = W_ABSENCE if absent else (W_WORKING if holds else W_FREE)
                            if S["fstate"][f] != exp:
                                ctx.fail("C03:facility-state-vs-holding")
            if ph == "updated" and prev is not None:
                for ti in range(nT):
                    if S["tstate"][ti] == FINISHED and prev["tstate"][ti] != FINISHED:
                        ctx.cover("release-on-finish")
                        if S["talloc_w"][ti] or S["talloc_f"][ti]:
                            ctx.fail("C03:finished-task-keeps-resources")
                        for w in prev["talloc_w"][ti]:
                            if ti in S["wassign"][w]:
                                ctx.fail("C03:worker-still-lists-finished-task")
                        for f in prev["talloc_f"][ti]:
                            if ti in S["fassign"][f]:
                                ctx.fail("C03:facility-still-lists-finished-task")
            if ph == "recorded":
                prev = S
    # ID logs agree per step
    T = min([len(t.allocated_worker_id_record) for t in M.tasks] + [len(w.assigned_task_id_record) for w in M.workers] or [0])
    for t in range(T):
        for ti, task in enumerate(M.tasks):
            for w, wk in enumerate(M.workers):
                a = wk.ID in (task.allocated_worker_id_record[t] or [])
                b = task.ID in (wk.assigned_task_id_record[t] or [])
                if a != b:
                    ctx.fail("C03:id-logs-disagree-worker")
            for f, fc in enumerate(M.facs):
                a = fc.ID in (task.allocated_facility_id_record[t] or [])
                b = task.ID in (fc.assigned_task_id_record[t] or [])
                if a != b:
                    ctx.fail("C03:id-logs-disagree-facility")
        for w, wk in enumerate(M.workers):
            logged = int(wk.state_record_list[t])
            if is_abs_step(M, t):
                if logged != W_ABSENCE:
                    ctx.fail("C03:worker-log-not-absence")
            else:
                holds = len(wk.assigned_task_id_record[t]) > 0
                exp = W_ABSENCE if w_absent(M, w, t) else (W_WORKING if holds else W_FREE)
                if logged != exp:
                    ctx.fail("C03:worker-log-state-vs-holding")
    ctx.nontrivial = any(len(x) > 0 for t in M.tasks for x in t.allocated_worker_id_record if x is not None)


# ----------------------------------------------------------------------------------------------- C04
def c04(M, ctx):
    # IDs are resolved per kind (a worker and a facility, or a team and a workplace, may carry the same ID text);
    # log index t stands for time t * unit_time
    widx = {wk.ID: i for i, wk in enumerate(M.workers)}
    fidx = {fc.ID: i for i, fc in enumerate(M.facs)}
    unit = M.run.get("unit_time", 1)
    if unit != 1:
        ctx.cover("unit-time-2")
    if M.spec.get("idstyle") == "bare":
        ctx.cover("shared-id-text")
    for ti, task in enumerate(M.tasks):
        ts = tspec(M, ti)
        wrec, frec = task.allocated_worker_id_record, task.allocated_facility_id_record
        for t in range(len(wrec)):
            ws = [widx[x] for x in (wrec[t] or [])]
            fs = [fidx[x] for x in (frec[t] or [])]
            prev_ws = [widx[x] for x in (wrec[t - 1] or [])] if t > 0 else []
            for w in ws:
                if w in prev_ws:
                    continue
                ctx.cover("allocation")
                if not wskill(M, w, ti) > EPS:
                    ctx.fail("C04:worker-without-skill")
                if not team_targets(M, w, ti):
                    ctx.fail("C04:worker-team-not-assigned")
                if w_absent(M, w, t * unit):
                    ctx.fail("C04:worker-absent-at-allocation")
                if not fixed_w_ok(M, w, ti):
                    ctx.fail("C04:worker-not-in-fixed-list")
            if len(ws) > 1 and any(M.wspec[w].get("solo") for w in ws):
                ctx.fail("C04:solo-worker-combined")
            if len(fs) > 1 and any(M.fspec[f].get("solo") for f in fs):
                ctx.fail("C04:solo-facility-combined")
            if len(ws) == 1 and M.wspec[ws[0]].get("solo"):
                ctx.cover("solo-alone")
            if ts.get("nf"):
                if len(ws) != len(fs):
                    ctx.fail("C04:unpaired-worker-facility")
                for w, f in zip(ws, fs):
                    if not fskill(M, f, ti) > EPS:
                        ctx.fail("C04:facility-without-skill")
                    if not wp_targets(M, f, ti):
                        ctx.fail("C04:facility-workplace-not-assigned")
                    if not fixed_f_ok(M, f, ti):
                        ctx.fail("C04:facility-not-in-fixed-list")
                    if not can_operate(M, w, f):
                        ctx.fail("C04:worker-cannot-operate-facility")
                    ctx.cover("pair")
                    ci = ts.get("comp")
                    if ci is not None:
                        placed = M.comps[ci].placed_workplace_id_record[t]
                        if placed != M.wps[M.fwp[f]].ID:
                            ctx.fail("C04:facility-of-other-workplace")
            elif fs:
                ctx.fail("C04:facility-on-task-without-need")
    ctx.nontrivial = any(len(x) > 0 for t in M.tasks for x in t.allocated_worker_id_record if x is not None)


# ----------------------------------------------------------------------------------------------- C07
def c07(M, ctx):
    prj = M.project
    T = len(prj.cost_list)
    total = 0
    # every cost / state log must cover the same steps (otherwise the per-step comparison below has nothing to compare)
    for o in list(M.workers) + list(M.facs):
        if len(o.cost_list) != T or len(o.state_record_list) != T:
            ctx.fail("C07:cost-log-length")
    for o in list(M.teams) + list(M.wps) + [M.org]:
        if len(o.cost_list) != T:
            ctx.fail("C07:cost-log-length")
    if "C07:cost-log-length" in ctx.fails:
        return
    for t in range(T):
        absent_step = is_abs_step(M, t)
        org = 0
        for mi, tm in enumerate(M.teams):
            s = 0
            for wk in tm.worker_list:
                exp = wk.cost_per_time if (int(wk.state_record_list[t]) == W_WORKING and not absent_step) else 0
                if wk.cost_list[t] != exp:
                    ctx.fail("C07:worker-charge")
                if int(wk.state_record_list[t]) == W_WORKING:
                    ctx.cover("charged")
                s = s + wk.cost_list[t]
            if tm.cost_list[t] != s:
                ctx.fail("C07:team-sum")
            org = org + tm.cost_list[t]
        for wp in M.wps:
            s = 0
            for fc in wp.facility_list:
                exp = fc.cost_per_time if (int(fc.state_record_list[t]) == W_WORKING and not absent_step) else 0
                if fc.cost_list[t] != exp:
                    ctx.fail("C07:facility-charge")
                s = s + fc.cost_list[t]
            if wp.cost_list[t] != s:
                ctx.fail("C07:workplace-sum")
            org = org + wp.cost_list[t]
        if M.org.cost_list[t] != org:
            ctx.fail("C07:organization-sum")
        if prj.cost_list[t] != M.org.cost_list[t]:
            ctx.fail("C07:project-vs-organization")
        if absent_step:
            if prj.cost_list[t] != 0:
                ctx.fail("C07:charged-at-absence-step")
            ctx.cover("absence-step")
        total = total + prj.cost_list[t]
    if len(M.org.cost_list) != T:
        ctx.fail("C07:cost-log-length")
    exp_total = 0
    for wk in M.workers:
        exp_total = exp_total + wk.cost_per_time * sum(1 for s in wk.state_record_list if int(s) == W_WORKING)
    for fc in M.facs:
        exp_total = exp_total + fc.cost_per_time * sum(1 for s in fc.state_record_list if int(s) == W_WORKING)
    if total != exp_total:
        ctx.fail("C07:total-cost")
    ctx.nontrivial = T >= 2 and any(int(s) == W_WORKING for w in M.workers for s in w.state_record_list)


# ----------------------------------------------------------------------------------------------- C10 (dead-time clauses)
def c10(M, ctx):
    n = len(M.tasks)
    for st in full_steps(M):
        t = st["t"]
        U, A, P = st["updated"], st["allocated"], st["performed"]
        if "working" in st and bool(st["working"]) != is_working(M, st):
            ctx.fail("C10:absence-step-not-recognised")
        if not is_working(M, st):
            ctx.cover("project-absence-step")
            for i in range(n):
                ts = tspec(M, i)
                if not ts.get("auto"):
                    if P["rem"][i] != U["rem"][i]:
                        ctx.fail("C10:progress-at-absence-step")
                else:
                    if A["tstate"][i] == WORKING:
                        exp = U["rem"][i] - (M.tasks[i].work_amount_progress_of_unit_step_time if M.run["flag"] else 0)
                        if P["rem"][i] != exp:
                            ctx.fail("C10:auto-task-vs-flag")
                        ctx.cover("auto-at-absence")
                    elif P["rem"][i] != U["rem"][i]:
                        ctx.fail("C10:auto-task-vs-flag")
                if len(A["talloc_w"][i]) > len(U["talloc_w"][i]) or len(A["talloc_f"][i]) > len(U["talloc_f"][i]):
                    ctx.fail("C10:allocation-at-absence-step")
            for w, wk in enumerate(M.workers):
                if int(wk.state_record_list[t]) != W_ABSENCE:
                    ctx.fail("C10:worker-not-logged-absence")
                if wk.cost_list[t] != 0:
                    ctx.fail("C10:cost-at-absence-step")
            for f, fc in enumerate(M.facs):
                if int(fc.state_record_list[t]) != W_ABSENCE:
                    ctx.fail("C10:facility-not-logged-absence")
                if fc.cost_list[t] != 0:
                    ctx.fail("C10:cost-at-absence-step")
            if M.project.cost_list[t] != 0:
                ctx.fail("C10:cost-at-absence-step")
        else:
            for w, wk in enumerate(M.workers):
                if w_absent(M, w, t):
                    ctx.cover("worker-absence")
                    if wk.cost_list[t] != 0:
                        ctx.fail("C10:absent-worker-charged")
                    if int(wk.state_record_list[t]) != W_ABSENCE:
                        ctx.fail("C10:absent-worker-not-logged-absence")
                    # contributes nothing: tasks it holds progress only by the others' contribution (see c02.contribution)
            for f, fc in enumerate(M.facs):
                if f_absent(M, f, t):
                    if fc.cost_list[t] != 0:
                        ctx.fail("C10:absent-facility-charged")
            for i in range(n):
                c = contribution(M, st, i)
                if A["tstate"][i] == WORKING and P["rem"][i] != A["rem"][i] - c:
                    ctx.fail("C10:absent-resource-contributed")
    ctx.nontrivial = any(not is_working(M, st) for st in full_steps(M)) or any(w.absence_time_list for w in M.workers)


# ----------------------------------------------------------------------------------------------- C14 (integration)
def c14(M, ctx, logs_in_run_order=True):
    """Component state vs task states at every recorded step (live, and in the logs under the display rule).
    The temporal clauses are also judged on the whole log (it spans a stopped and continued run) unless the log was reversed."""
    for ci, c in enumerate(M.comps):
        tids = [i for i, ts in enumerate(M.spec["tasks"]) if ts.get("comp") == ci]
        was_not_none = False
        was_finished = False
        for st in M.obs.steps:
            for ph in ("updated", "allocated", "recorded"):
                if ph not in st:
                    continue
                S = st[ph]
                cs = S["cstate"][ci]
                tstates = [S["tstate"][i] for i in tids]
                allfin = all(s == FINISHED for s in tstates)
                if (cs == FINISHED) != allfin:
                    ctx.fail("C14:finished-iff-all-finished")
                if any(s == WORKING for s in tstates) and cs != WORKING:
                    ctx.fail("C14:working-task-but-component-not-working")
                if any(s in (READY, WORKING) for s in tstates) and cs == NONE:
                    ctx.fail("C14:active-task-but-component-none")
                if was_not_none and cs == NONE:
                    ctx.fail("C14:returned-to-none")
                if was_finished and cs != FINISHED:
                    ctx.fail("C14:left-finished")
                was_not_none = was_not_none or cs != NONE
                was_finished = was_finished or cs == FINISHED
        # logs
        log_not_none = log_finished = False
        for t in range(len(c.state_record_list)):
            cs = int(c.state_record_list[t])
            if logs_in_run_order:
                if log_not_none and cs == NONE:
                    ctx.fail("C14:log-returned-to-none")
                if log_finished and cs != FINISHED:
                    ctx.fail("C14:log-left-finished")
                log_not_none = log_not_none or cs != NONE
                log_finished = log_finished or cs == FINISHED
            tstates = [int(M.tasks[i].state_record_list[t]) for i in tids]
            if (cs == FINISHED) != all(s == FINISHED for s in tstates):
                ctx.fail("C14:log-finished-iff-all-finished")
            if any(s == WORKING for s in tstates) and cs != WORKING:
                ctx.fail("C14:log-working-task-but-component-not-working")
            if any(s in (READY, WORKING) for s in tstates) and cs == NONE:
                ctx.fail("C14:log-active-task-but-component-none")
        if not tids:
            ctx.cover("component-without-task")
        if len(tids) >= 2:
            ctx.cover("component-with-two-tasks")
    ctx.nontrivial = len(M.comps) > 0 and len(full_steps(M)) >= 2


# ----------------------------------------------------------------------------------------------- C06
def can_accept_worker(M, S, ti, w):
    """Task ti (live snapshot S) can still take worker w as far as solo rules go."""
    if any(M.wspec[x].get("solo") for x in S["talloc_w"][ti]):
        return False
    if any(M.fspec[x].get("solo") for x in S["talloc_f"][ti]):
        return False
    if M.wspec[w].get("solo") and len(S["talloc_w"][ti]) > 0:
        return False
    return True


def can_accept_pair(M, S, ti, w, f):
    if not can_accept_worker(M, S, ti, w):
        return False
    if M.fspec[f].get("solo") and len(S["talloc_f"][ti]) > 0:
        return False
    return True


def c06(M, ctx):
    n = len(M.tasks)
    sf = started_flags(M)
    for k, st in enumerate(M.obs.steps):
        U = st["updated"]
        # (a) start gates satisfied => not NONE
        for b in range(n):
            if U["tstate"][b] != NONE:
                continue
            gates = True
            for (a, bb, kd) in M.edges:
                if bb != b:
                    continue
                if kd == 0 and U["tstate"][a] != FINISHED:
                    gates = False
                if kd == 1 and not sf[k]["updated"][a]:
                    gates = False
            if gates:
                ctx.fail("C06:dependencies-satisfied-but-none")
        if "recorded" not in st or not is_working(M, st):
            continue
        A = st["allocated"]
        t = st["t"]
        # (b) unbound auto task never waits in READY on a working step
        for i in range(n):
            ts = tspec(M, i)
            if ts.get("auto") and ts.get("comp") is None:
                if A["tstate"][i] == READY or int(M.tasks[i].state_record_list[t]) == READY:
                    ctx.fail("C06:auto-task-waits-in-ready")
        # (c) no eligible worker stays FREE
        for w in range(len(M.workers)):
            if A["wstate"][w] != W_FREE:
                continue
            for i in range(n):
                ts = tspec(M, i)
                if A["tstate"][i] not in (READY, WORKING) or ts.get("auto"):
                    continue
                if not eligible_worker(M, w, i):
                    continue
                if not ts.get("nf"):
                    if can_accept_worker(M, A, i, w):
                        ctx.fail("C06:eligible-worker-idle")
                    else:
                        ctx.cover("idle-but-task-cannot-accept")
                else:
                    ci = ts.get("comp")
                    single = ci is not None and sum(1 for x in M.spec["tasks"] if x.get("comp") == ci) == 1
                    if not single:
                        continue
                    placed = A["cplaced"][ci]
                    if placed is None:
                        # not placed anywhere: the task waits avoidably if some workplace assigned to it had room for the component
                        # (as the code counts space: every listed component) and a free eligible pair *both* before and after the
                        # allocation pass - nobody else took them, so the component should have been placed.  (Room that only
                        # appears during the pass, because a later task moved its component away, is the single-pass greedy
                        # order of the allocator and not claimed.)
                        if A["tstate"][i] != READY or U["tstate"][i] != READY or comp_parents(M, ci) or M.spec["comps"][ci].get("children"):
                            continue
                        if U["wstate"][w] != W_FREE:
                            continue
                        for pi in range(len(M.wps)):
                            if i not in M.spec["wps"][pi].get("targets", []):
                                continue  # only workplaces assigned to the task
                            room = True
                            for S_ in (U, A):
                                used = 0
                                for cj in range(len(M.comps)):
                                    if S_["cplaced"][cj] == pi:  # where the components say they are
                                        used = used + M.comps[cj].space_size
                                if not M.wps[pi].max_space_size - used > M.comps[ci].space_size - 1e-8:
                                    room = False
                            if not room:
                                continue
                            for f in range(len(M.facs)):
                                if (M.fwp[f] == pi and A["fstate"][f] == W_FREE and U["fstate"][f] == W_FREE and not A["fassign"][f]
                                        and eligible_facility(M, f, i) and can_operate(M, w, f) and can_accept_pair(M, A, i, w, f)):
                                    ctx.fail("C06:eligible-pair-idle-component-not-placed")
                        continue
                    for f in range(len(M.facs)):
                        if M.fwp[f] != placed or A["fstate"][f] != W_FREE:
                            continue
                        if eligible_facility(M, f, i) and can_operate(M, w, f) and can_accept_pair(M, A, i, w, f):
                            ctx.fail("C06:eligible-pair-idle")
        if any(A["wstate"][w] == W_FREE for w in range(len(M.workers))) and any(A["tstate"][i] in (READY, WORKING) for i in range(n)):
            ctx.cover("free-worker-and-active-task")
    must_finish(M, ctx, "C06")
    ctx.nontrivial = len(full_steps(M)) >= 2


# ----------------------------------------------------------------------------------------------- C05
SUCCESS, FAILURE = 1, -1


def feasible(M):
    """Strong feasibility predicate of C05 (deliberately strong: no infeasible member is ever claimed feasible)."""
    n = len(M.tasks)
    if M.comps or M.facs:
        return False
    has_ffsf = any(kd in (2, 3) for (_, _, kd) in M.edges)
    for i in range(n):
        ts = tspec(M, i)
        if ts.get("auto") or M.prog[i] == 2:
            continue
        elig = [w for w in range(len(M.workers)) if eligible_worker(M, w, i)]
        if not elig:
            return False
        if any(M.wspec[w].get("solo") for w in range(len(M.workers))):
            # a solo worker may block a task from ever taking further help; keep the predicate strong
            pass
        if has_ffsf:
            own = [w for w in elig if not any(eligible_worker(M, w, j) for j in range(n) if j != i)]
            if not own:
                return False
    return True


def unserved_task(M):
    """Some non-automatic unfinished task that no worker can ever serve."""
    for i in range(len(M.tasks)):
        ts = tspec(M, i)
        if ts.get("auto") or M.prog[i] == 2:
            continue
        if not any(eligible_worker(M, w, i) for w in range(len(M.workers))):
            return True
    return False


def c05(M, ctx, check_liveness=True):
    prj = M.project
    mt = M.run["max_time"]
    if M.exc is not None:
        nested = any(cs.get("children") for cs in M.spec.get("comps", []))
        ctx.fail("C05:simulate-raised:%s%s" % ("nested-product:" if nested else "", ctx.aborted))
        return
    status = int(prj.status)
    allfin = all(int(t.state) == FINISHED for t in M.tasks)
    if status == SUCCESS:
        if not allfin:
            ctx.fail("C05:success-but-unfinished-task")
        ctx.cover("success")
    elif status == FAILURE:
        if allfin:
            ctx.fail("C05:failure-but-all-finished")
        if not prj.time >= mt:
            ctx.fail("C05:failure-before-max-time")
        ctx.cover("failure")
    else:
        ctx.fail("C05:status-not-final")
    # no step at or beyond max_time
    for name_len in [len(t.state_record_list) for t in M.tasks] + [len(prj.cost_list)] + [len(w.state_record_list) for w in M.workers]:
        if name_len > 0 and not name_len <= mt:
            ctx.fail("C05:step-at-or-beyond-max-time")
        if name_len != prj.time:
            ctx.fail("C05:log-length-differs-from-time")
    if mt >= 0 and not prj.time <= mt:
        ctx.fail("C05:time-beyond-max-time")
    if check_liveness:
        n = len(M.tasks)
        bound = n + 1
        for i in range(n):
            bound = bound + M.work[i] + 1
        nabs = 0
        for a in M.run["abs"]:
            if a >= 0:
                nabs += 1
        for w in M.workers:
            for a in w.absence_time_list:
                if a >= 0:
                    nabs += 1
        bound = bound + nabs
        if feasible(M):
            ctx.cover("feasible")
            if mt > bound and status != SUCCESS:
                ctx.fail("C05:feasible-project-did-not-complete")
            if mt > bound:
                ctx.cover("feasible-with-enough-time")
        if unserved_task(M):
            ctx.cover("unserved-task")
            if status == SUCCESS:
                ctx.fail("C05:success-with-unserved-task")
    ctx.nontrivial = prj.time >= 1


# ----------------------------------------------------------------------------------------------- C13
def comp_tasks(M, ci):
    return [i for i, ts in enumerate(M.spec["tasks"]) if ts.get("comp") == ci]


def comp_parents(M, ci):
    return [pi for pi, cs in enumerate(M.spec["comps"]) if ci in cs.get("children", [])]


def c13(M, ctx):
    nC, nP = len(M.comps), len(M.wps)

    def nested(ci):
        return bool(comp_parents(M, ci) or M.spec["comps"][ci].get("children"))

    def q(ci):
        # clause tags of nested components are qualified, so that a listed finding about nested products
        # can never hide a violation on a flat product
        return "nested:" if nested(ci) else ""

    for st in M.obs.steps:
        for ph in ("updated", "allocated", "recorded"):
            if ph not in st:
                continue
            S = st[ph]
            for ci in range(nC):
                holders = [pi for pi in range(nP) if ci in S["wpplaced"][pi]]
                if len(holders) > 1:
                    ctx.fail("C13:%scomponent-at-two-workplaces" % q(ci))
                if any(S["wpplaced"][pi].count(ci) > 1 for pi in range(nP)):
                    ctx.fail("C13:%scomponent-listed-twice" % q(ci))
                if S["cplaced"][ci] is None:
                    if holders:
                        ctx.fail("C13:%sworkplace-lists-unplaced-component" % q(ci))
                elif holders != [S["cplaced"][ci]]:
                    ctx.fail("C13:%scomponent-placed-but-not-listed" % q(ci))
            for pi in range(nP):
                top = [ci for ci in S["wpplaced"][pi] if not any(pp in S["wpplaced"][pi] for pp in comp_parents(M, ci))]
                used = 0
                for ci in top:
                    used = used + M.comps[ci].space_size
                if used > M.wps[pi].max_space_size:
                    ctx.fail("C13:%scapacity-exceeded" % ("nested:" if any(nested(ci) for ci in S["wpplaced"][pi]) else ""))
                if len(top) >= 2:
                    ctx.cover("two-components-share-workplace")
            if ph == "updated":
                for ci in range(nC):
                    if not comp_parents(M, ci):
                        tids = comp_tasks(M, ci)
                        if all(S["tstate"][i] == FINISHED for i in tids) and S["cplaced"][ci] is not None:
                            ctx.fail("C13:%sfinished-component-still-placed" % q(ci))
                        if tids and all(S["tstate"][i] == FINISHED for i in tids):
                            ctx.cover("finished-component-released")
    # placements made by the allocator; a *move* is a placement into a workplace other than the current one
    loc = {}
    for st in M.obs.steps:
        for ci in range(nC):
            loc[(st["t"], ci)] = st["updated"]["cplaced"][ci]
    per_step = {}
    for (t, ci, pi, tstates, tfac) in M.obs.moves:
        before = loc.get((t, ci))
        loc[(t, ci)] = pi
        for ch in M.spec["comps"][ci].get("children", []):
            loc[(t, ch)] = pi
        if before == pi:
            ctx.cover("re-placed-in-same-workplace")
            continue
        per_step[(t, ci)] = per_step.get((t, ci), 0) + 1
        if any(tstates[i] == WORKING for i in comp_tasks(M, ci)):
            ctx.fail("C13:%smoved-while-task-working" % q(ci))
        if any(tfac[i] for i in comp_tasks(M, ci)):
            ctx.cover("moved-after-task-got-facility")
        for ch in M.spec["comps"][ci].get("children", []):
            if any(tstates[i] == WORKING for i in comp_tasks(M, ch)):
                ctx.fail("C13:nested:child-moved-while-its-task-working")
    for (t, ci), cnt in per_step.items():
        if cnt > 1:
            # two placements inside one allocation pass are not observable at the property's observation points
            # (per-step logs, live state at the phases); recorded as a cover goal, not as a violation
            ctx.cover("placed-twice-inside-one-allocation-pass")
    # at most one change of location per step, at the property's observation points
    for st in M.obs.steps:
        seq = [st[ph]["cplaced"] for ph in ("updated", "allocated", "performed", "recorded") if ph in st]
        for ci in range(nC):
            changes = sum(1 for a, b in zip(seq, seq[1:]) if a[ci] != b[ci])
            if changes > 1:
                ctx.fail("C13:%smoved-twice-in-one-step" % q(ci))
    # conveyor rule and one move per step, from the placement logs
    for ci, c in enumerate(M.comps):
        rec = c.placed_workplace_id_record
        for t in range(len(rec)):
            cur = rec[t]
            prv = rec[t - 1] if t > 0 else None
            if cur is not None and cur != prv:
                pi = int(cur[2:])
                ins = M.spec["wps"][pi].get("inputs", [])
                if ins:
                    ctx.cover("entered-workplace-with-inputs")
                    if prv is not None and int(prv[2:]) not in ins:
                        ctx.fail("C13:%sentered-from-non-input-workplace" % q(ci))
                if prv is not None:
                    ctx.cover("moved-between-workplaces")
    # logs two-way consistency
    for pi, wp in enumerate(M.wps):
        for t in range(len(wp.placed_component_id_record)):
            for ci, c in enumerate(M.comps):
                a = c.ID in wp.placed_component_id_record[t]
                b = t < len(c.placed_workplace_id_record) and c.placed_workplace_id_record[t] == wp.ID
                if a != b:
                    ctx.fail("C13:%splacement-logs-disagree" % q(ci))
    # a task only works with facilities of the workplace where its component is placed at that step
    for ti, task in enumerate(M.tasks):
        ts = tspec(M, ti)
        if not ts.get("nf") or ts.get("comp") is None:
            continue
        crec = M.comps[ts["comp"]].placed_workplace_id_record
        for t in range(len(task.allocated_facility_id_record)):
            for fid in (task.allocated_facility_id_record[t] or []):
                f = int(fid[1:])
                ctx.cover("facility-used")
                if crec[t] != "wp%d" % M.fwp[f]:
                    ctx.fail("C13:%sfacility-of-workplace-where-component-is-not-placed" % q(ts["comp"]))
    ctx.nontrivial = any(r is not None for c in M.comps for r in c.placed_workplace_id_record)


# ----------------------------------------------------------------------------------------------- C12
def pert_reference(n, edges, rem, t):
    """Independent critical-path computation for a finish-to-start network (index order is topological)."""
    est = [t] * n
    eft = [None] * n
    for i in range(n):
        e = t
        for (a, b, _) in edges:
            if b == i:
                cand = est[a] + rem[a]
                if cand > e:
                    e = cand
        est[i] = e
        eft[i] = e + rem[i]
    cpl = eft[0]
    for i in range(1, n):
        if eft[i] > cpl:
            cpl = eft[i]
    lft = [None] * n
    lst = [None] * n
    for i in reversed(range(n)):
        succ = [b for (a, b, _) in edges if a == i]
        if not succ:
            lf = cpl
        else:
            lf = lst[succ[0]]
            for s in succ[1:]:
                if lst[s] < lf:
                    lf = lst[s]
        lft[i] = lf
        lst[i] = lf - rem[i]
    return est, eft, lst, lft, cpl


def c12_check(ctx, n, edges, rem, t, pert, cpl, where):
    est, eft, lst, lft, rcpl = pert_reference(n, edges, rem, t)
    if cpl != rcpl:
        ctx.fail("C12:%s:critical-path-length" % where)
    zero_slack = False
    for i in range(n):
        g_est, g_eft, g_lst, g_lft = pert[i]
        if g_est != est[i]:
            ctx.fail("C12:%s:est" % where)
        if g_eft != eft[i]:
            ctx.fail("C12:%s:eft" % where)
        if g_lft != lft[i]:
            ctx.fail("C12:%s:lft" % where)
        if g_lst != lst[i]:
            ctx.fail("C12:%s:lst" % where)
        if g_lst - g_est < 0:
            ctx.fail("C12:%s:negative-slack" % where)
        if g_lst - g_est == 0:
            zero_slack = True
    if n and not zero_slack:
        ctx.fail("C12:%s:no-critical-task" % where)


def c12(M, ctx):
    n = len(M.tasks)
    if any(k != 0 for (_, _, k) in M.edges):
        return
    for st in M.obs.steps:
        U = st["updated"]
        c12_check(ctx, n, M.edges, U["rem"], st["t"], U["pert"], U["cpl"], "step0" if st["t"] == 0 else "later-step")
        if st["t"] > 0:
            ctx.cover("pert-at-later-step")
    ctx.nontrivial = len(M.obs.steps) >= 2 and len(M.edges) >= 1


# ----------------------------------------------------------------------------------------------- C11 (integration)
def rule_key(M, rule, U, i, t):
    """Documented priority key of task i under `rule` at the allocation of step t (smaller = higher priority)."""
    est, eft, lst, lft = U["pert"][i]
    if rule == 0:
        return lst - est
    if rule == 1:
        return est
    if rule == 2:
        return M.tasks[i].default_work_amount
    if rule == 3:
        return -M.tasks[i].default_work_amount
    if rule == 4:
        return -sum(1 for s in M.tasks[i].state_record_list[:t] if int(s) == READY)
    if rule == 5:
        return -U["rem"][i]
    if rule == 6:
        return U["rem"][i]
    return 0  # LWRPT / SWRPT: one workflow, the same key for every task


def worker_rule_key(M, wrule, w, ti, target_wp):
    """Documented key of worker w under the task's worker rule (smaller = served first)."""
    mwid = M.workers[w].main_workplace_id
    tgt = None if target_wp is None else M.wps[target_wp].ID
    mw = (1 if mwid != tgt else 0, 1 if mwid is not None else 0)
    ssum = sum(M.workers[w].workamount_skill_mean_map.values())
    if wrule == -1:
        return mw + (ssum,)
    if wrule == 0:
        return (ssum,) + mw
    if wrule == 1:
        return (M.workers[w].cost_per_time,) + mw
    return (-wskill(M, w, ti),) + mw


def c11_workers(M, ctx):
    """Facility tasks: a worker newly paired in this step is not outranked (task's worker rule, target = the workplace where the
    component is placed) by a worker who stayed FREE although he was eligible for the same pair."""
    for st in full_steps(M):
        if not is_working(M, st):
            continue
        U, A = st["updated"], st["allocated"]
        for i in range(len(M.tasks)):
            ts = tspec(M, i)
            if not ts.get("nf") or ts.get("comp") is None:
                continue
            wrule = ts.get("wrule")
            if wrule is None:
                wrule = -1  # BaseTask's default worker rule is MW
            placed = A["cplaced"][ts["comp"]]
            new_pairs = [(w, f) for w, f in zip(A["talloc_w"][i], A["talloc_f"][i]) if w not in U["talloc_w"][i]]
            for (w, f) in new_pairs:
                for w2 in range(len(M.workers)):
                    if w2 == w or A["wstate"][w2] != W_FREE or U["wstate"][w2] != W_FREE:
                        continue
                    if not (eligible_worker(M, w2, i) and can_operate(M, w2, f)):
                        continue
                    if M.wspec[w2].get("solo") or M.wspec[w].get("solo"):
                        continue
                    ctx.cover("c11:worker-choice")
                    if worker_rule_key(M, wrule, w2, i, placed) < worker_rule_key(M, wrule, w, i, placed):
                        ctx.fail("C11:allocation-inverts-worker-priority")
                        ctx.notes.setdefault("worker_inversion", "step %d task %d: worker %d paired with facility %d although free worker %d ranks higher under worker rule %s" % (st["t"], i, w, f, w2, wrule))


def c11(M, ctx):
    c11_workers(M, ctx)
    rule = M.run["rule"]
    n = len(M.tasks)
    for st in full_steps(M):
        if not is_working(M, st):
            continue
        U, A, t = st["updated"], st["allocated"], st["t"]
        active = [i for i in range(n) if U["tstate"][i] in (READY, WORKING) and not tspec(M, i).get("auto")]
        for lo in active:
            newly = [w for w in A["talloc_w"][lo] if w not in U["talloc_w"][lo]]
            if not newly:
                continue
            for hi in active:
                if hi == lo or tspec(M, lo).get("nf"):
                    continue
                if not rule_key(M, rule, U, hi, t) < rule_key(M, rule, U, lo, t):
                    continue
                if tspec(M, hi).get("nf"):
                    # the higher-ranking task needs a worker-facility pair: it was passed over if its (single-task) component stayed
                    # at a workplace that had a facility which was free before and after the pass, fits the task and can be operated
                    # by the worker that went to the lower-ranking task
                    ci = tspec(M, hi).get("comp")
                    if ci is None or sum(1 for x in M.spec["tasks"] if x.get("comp") == ci) != 1:
                        continue
                    pl = A["cplaced"][ci]
                    if pl is None:
                        continue  # (a single-task component is only ever placed while its own task is being served, i.e. before `lo` was)
                    for w in newly:
                        for f in range(len(M.facs)):
                            if (M.fwp[f] == pl and A["fstate"][f] == W_FREE and U["fstate"][f] == W_FREE and not A["fassign"][f] and eligible_facility(M, f, hi)
                                    and can_operate(M, w, f) and eligible_worker(M, w, hi) and can_accept_pair(M, A, hi, w, f)):
                                ctx.fail("C11:allocation-inverts-priority:facility-task-passed-over")
                                ctx.notes.setdefault("inversion", "step %d: worker %d given to task %d although facility task %d ranks higher under rule %d and facility %d was free" % (t, w, lo, hi, rule, f))
                    ctx.cover("c11:strict-priority-pair-facility-task")
                    continue
                ctx.cover("c11:strict-priority-pair")
                for w in newly:
                    if eligible_worker(M, w, hi) and can_accept_worker(M, A, hi, w):
                        ctx.fail("C11:allocation-inverts-priority")
                        ctx.notes.setdefault("inversion", "step %d: worker %d given to task %d although task %d ranks higher under rule %d" % (t, w, lo, hi, rule))
    ctx.nontrivial = len(full_steps(M)) >= 2
