"""C11 - priority rules order candidates as documented; allocation never inverts them.

Unit obligations: every sort function / rule mode on lists of objects whose key values are solver variables
(ties and missing entries included; main-workplace IDs are distinct-but-equal string objects).
Integration obligations (allocation under contention) live in props/simprops.py (oracle `c11`).
"""
from engine.sym import exc_tag

META = {
    "rule": "one case = one symbolic path through sorted()/key functions for one rule mode (a class of key-value assignments); "
            "non-trivial = the output order differs from the input order or a tie was kept in input order; distinct by (mode, permutation, tie pattern)",
    "functions": ["base_priority_rule.sort_task_list (9 modes)", "sort_worker_list (4 modes)", "sort_facility_list (MW,SSP,VC,HSV)", "sort_workplace_list (FSS,SSP)",
                  "BaseWorkplace.get_available_space_size", "BaseFacility.has_workamount_skill"],
    "stubs": ["none"],
    "assumptions": ["key values are small integers (est/lst/amounts/costs/skills); skills may be missing", "list length <= 3 quick / 4 thorough"],
    "bounds": {"quick": {"n": "0..3", "key range": "0..3 (lst -1..3)"}, "thorough": {"n": "0..4", "key range": "0..4"}},
    "outside": ["lists longer than the bound", "non-integer key values", "nan keys"],
}
REQUIRED_COVERS = {"any": ["task:reordered", "task:tie", "worker:reordered", "worker:mw-equal-not-identical", "facility:reordered", "workplace:reordered", "c11:strict-priority-pair", "c11:resource-rule-accepted", "c11:worker-choice", "run:backward"]}

TASK_MODES = list(range(9))


def _fresh(s):
    """A new string object equal to s (never interned / never identical to another)."""
    return "".join(list(s))


def _check_sorted(ctx, what, inp, out, keyf, reverse=False):
    """out must be a permutation of inp (same objects) ordered by keyf, ties in input order."""
    if len(out) != len(inp):
        ctx.fail("%s:not-permutation" % what)
        return None
    idx = []
    for o in out:
        found = [i for i, x in enumerate(inp) if x is o]
        if len(found) != 1:
            ctx.fail("%s:not-permutation" % what)
            return None
        idx.append(found[0])
    if sorted(idx) != list(range(len(inp))):
        ctx.fail("%s:not-permutation" % what)
        return None
    tie = False
    for a in range(len(out) - 1):
        ka, kb = keyf(out[a]), keyf(out[a + 1])
        if ka == kb:
            tie = True
            if idx[a] > idx[a + 1]:
                ctx.fail("%s:unstable-tie" % what)
        elif (ka > kb) if not reverse else (ka < kb):
            ctx.fail("%s:wrong-order" % what)
    return tuple(idx), tie


def sort_tasks(p, ctx):
    from pDESy.model.base_task import BaseTask, BaseTaskState
    from pDESy.model.base_workflow import BaseWorkflow
    from pDESy.model.base_priority_rule import sort_task_list, TaskPriorityRuleMode

    n = p["n"]
    mode = TaskPriorityRuleMode(p["mode"])
    tasks = []
    for i in range(n):
        # every task carries the same name: the documented keys do not depend on names
        t = BaseTask("task", ID="t%d" % i, default_work_amount=p["w%d" % i])
        t.est = p["e%d" % i]
        t.lst = p["l%d" % i]
        t.remaining_work_amount = p["r%d" % i]
        rc = ctx.c(p["c%d" % i])
        t.state_record_list = [BaseTaskState.NONE] + [BaseTaskState.READY] * rc + [BaseTaskState.WORKING]
        wf = BaseWorkflow([])
        wf.critical_path_length = p["cp%d" % i]
        t.parent_workflow = wf
        t._rc = rc
        tasks.append(t)
    inp = list(tasks)
    ok, out = ctx.call(sort_task_list, inp, mode)
    if not ok:
        ctx.fail("sort_task_list:%s:raises:%s" % (mode.name, exc_tag(out)))
        return
    keys = {
        "TSLACK": (lambda t: t.lst - t.est, False), "EST": (lambda t: t.est, False),
        "SPT": (lambda t: t.default_work_amount, False), "LPT": (lambda t: t.default_work_amount, True),
        "FIFO": (lambda t: t._rc, True), "LRPT": (lambda t: t.remaining_work_amount, True),
        "SRPT": (lambda t: t.remaining_work_amount, False),
        "LWRPT": (lambda t: t.parent_workflow.critical_path_length, True),
        "SWRPT": (lambda t: t.parent_workflow.critical_path_length, False),
    }
    kf, rev = keys[mode.name]
    r = _check_sorted(ctx, "sort_task_list:%s" % mode.name, inp, out, kf, rev)
    if inp != tasks:
        ctx.fail("sort_task_list:%s:input-mutated" % mode.name)
    if r:
        perm, tie = r
        ctx.sig = ("task", mode.name, perm, tie)
        ctx.nontrivial = perm != tuple(range(n)) or tie
        if perm != tuple(range(n)):
            ctx.cover("task:reordered")
        if tie:
            ctx.cover("task:tie")


def _mk_resources(p, ctx, cls, n, with_mw):
    objs = []
    pool = [None, "wpA", "wpB"]
    for i in range(n):
        skills = {}
        for nm in ("a", "b"):
            sv = p["k%d%s" % (i, nm)]  # -1 = entry missing
            if sv >= 0:
                skills[nm] = sv
        kw = dict(ID="r%d" % i, cost_per_time=p["c%d" % i], workamount_skill_mean_map=skills)
        if with_mw:
            sel = ctx.c(p["m%d" % i])
            kw["main_workplace_id"] = _fresh(pool[sel]) if pool[sel] is not None else None
        o = cls("r%d" % i, **kw)
        o._sel = sel if with_mw else 0
        objs.append(o)
    return objs


def sort_workers(p, ctx):
    from pDESy.model.base_worker import BaseWorker
    from pDESy.model.base_priority_rule import sort_worker_list, ResourcePriorityRuleMode

    n = p["n"]
    mode = ResourcePriorityRuleMode(p["mode"])
    ws = _mk_resources(p, ctx, BaseWorker, n, True)
    pool = [None, "wpA", "wpB"]
    tsel = p["target"]  # concrete per cube: -1 -> kwarg absent
    kwargs = {"name": "a"}
    target = None
    if tsel >= 0:
        target = _fresh(pool[tsel]) if pool[tsel] is not None else None
        kwargs["workplace_id"] = target
    inp = list(ws)
    ok, out = ctx.call(sort_worker_list, inp, mode, **kwargs)
    if not ok:
        ctx.fail("sort_worker_list:%s:raises:%s" % (mode.name, exc_tag(out)))
        return
    INF = 10**6

    def mw(w):
        return (1 if w.main_workplace_id != target else 0, 1 if w.main_workplace_id is not None else 0)

    def ssum(w):
        return sum(w.workamount_skill_mean_map.values())

    keyfs = {
        "MW": lambda w: mw(w) + (ssum(w),),
        "SSP": lambda w: (ssum(w),) + mw(w),
        "VC": lambda w: (w.cost_per_time,) + mw(w),
        "HSV": lambda w: ((-w.workamount_skill_mean_map["a"]) if "a" in w.workamount_skill_mean_map else INF,) + mw(w),
    }
    r = _check_sorted(ctx, "sort_worker_list:%s" % mode.name, inp, out, keyfs[mode.name])
    if r:
        perm, tie = r
        ctx.sig = ("worker", mode.name, tsel, perm, tie, tuple(w._sel for w in ws))
        ctx.nontrivial = perm != tuple(range(n)) or tie
        if perm != tuple(range(n)):
            ctx.cover("worker:reordered")
        if target is not None and any(w.main_workplace_id == target and w.main_workplace_id is not target for w in ws):
            ctx.cover("worker:mw-equal-not-identical")


def sort_facilities(p, ctx):
    from pDESy.model.base_facility import BaseFacility
    from pDESy.model.base_priority_rule import sort_facility_list, ResourcePriorityRuleMode

    n = p["n"]
    mode = ResourcePriorityRuleMode(p["mode"])
    fs = _mk_resources(p, ctx, BaseFacility, n, False)
    inp = list(fs)
    ok, out = ctx.call(sort_facility_list, inp, mode, name="a")
    if not ok:
        ctx.fail("sort_facility_list:%s:raises:%s" % (mode.name, exc_tag(out)))
        return
    INF = 10**6
    keyfs = {
        "MW": (lambda f: 0, False),  # no documented key for facilities: must be accepted and return a permutation
        "SSP": (lambda f: sum(f.workamount_skill_mean_map.values()), False),
        "VC": (lambda f: f.cost_per_time, False),
        "HSV": (lambda f: f.workamount_skill_mean_map["a"] if "a" in f.workamount_skill_mean_map else -INF, True),
    }
    kf, rev = keyfs[mode.name]
    r = _check_sorted(ctx, "sort_facility_list:%s" % mode.name, inp, out, kf, rev)
    if r:
        perm, tie = r
        ctx.sig = ("facility", mode.name, perm, tie)
        ctx.nontrivial = perm != tuple(range(n)) or tie
        if perm != tuple(range(n)):
            ctx.cover("facility:reordered")


def sort_workplaces(p, ctx):
    from pDESy.model.base_facility import BaseFacility, BaseFacilityState
    from pDESy.model.base_workplace import BaseWorkplace
    from pDESy.model.base_component import BaseComponent
    from pDESy.model.base_priority_rule import sort_workplace_list, WorkplacePriorityRuleMode

    n = p["n"]
    mode = WorkplacePriorityRuleMode(p["mode"])
    wps = []
    for i in range(n):
        facs = []
        for j in range(2):
            sv = p["k%d_%d" % (i, j)]
            fc = BaseFacility("f%d_%d" % (i, j), ID="f%d_%d" % (i, j), workamount_skill_mean_map=({"a": sv} if sv >= 0 else {}))
            # the documented key (sum of skill points) does not depend on the facilities' momentary state
            fc.state = BaseFacilityState({0: 0, 1: 1, 2: -1}[(i + j) % 3])
            facs.append(fc)
        wp = BaseWorkplace("wp%d" % i, ID="wp%d" % i, facility_list=facs, max_space_size=p["cap%d" % i])
        wp.placed_component_list = [BaseComponent("c%d" % i, ID="c%d" % i, space_size=p["use%d" % i])]
        wps.append(wp)
    inp = list(wps)
    ok, out = ctx.call(sort_workplace_list, inp, mode, name="a")
    if not ok:
        ctx.fail("sort_workplace_list:%s:raises:%s" % (mode.name, exc_tag(out)))
        return

    def ssp(wp):
        return sum(f.workamount_skill_mean_map["a"] for f in wp.facility_list if f.workamount_skill_mean_map.get("a", 0) > 0)

    keyfs = {"FSS": lambda wp: wp.max_space_size - wp.placed_component_list[0].space_size, "SSP": ssp}
    r = _check_sorted(ctx, "sort_workplace_list:%s" % mode.name, inp, out, keyfs[mode.name], True)
    if r:
        perm, tie = r
        ctx.sig = ("workplace", mode.name, perm, tie)
        ctx.nontrivial = perm != tuple(range(n)) or tie
        if perm != tuple(range(n)):
            ctx.cover("workplace:reordered")


def sim(p, ctx):
    from props.simcore import run_sim
    from props import oracles

    M = run_sim(p, ctx)
    oracles.c11(M, ctx)


def sim_rules(p, ctx):
    """Every rule is accepted for every resource kind it is used with: simulate() must not raise because of the rule."""
    from props.simcore import run_sim
    from props import oracles

    M = run_sim(p, ctx)
    if M.exc is not None:
        ctx.fail("C11:rule-not-accepted:%s" % ctx.aborted)
    else:
        ctx.cover("c11:resource-rule-accepted")
        oracles.c11(M, ctx)


def sim_history(p, ctx):
    from props.simcore import run_sim_history
    from props import oracles

    M = run_sim_history(p, ctx, p["mode"])
    if M.exc is not None:
        ctx.fail("C11:rule-not-accepted:%s" % ctx.aborted)
    else:
        oracles.c11(M, ctx)


def integration_obligations(tier):
    """Allocation under contention for every task priority rule (zsym engine)."""
    from props import profiles

    thorough = tier == "thorough"
    obs = []
    for ob in profiles.p_resource_rules(thorough, timeout=900 if thorough else 150):
        ob = dict(ob, harness="sim_rules", engine="zsym")
        obs.append(ob)
    # a facility task that ranks above a plain task: the only worker can operate only some of its workplace's facilities
    for rule in ((0, 4) if not thorough else range(9)):
        for frule in (-1, 0):
            tasks = [{"w": "$w0", "nf": True, "comp": 0, "frule": frule}, {"w": "$w1"}]
            wps = [{"targets": [0], "cap": 1, "facs": [{"skills": {"0": "$f0"}}, {"skills": {"0": "$f1"}}]}]
            ws = [{"skills": {"0": 1, "1": 1}, "fskills": {"0": "$q0", "1": "$q1"}}]
            spec = {"tasks": tasks, "edges": [], "teams": [{"targets": [0, 1], "workers": ws}], "wps": wps, "comps": [{"size": 1}], "run": {"max_time": 10, "rule": rule}}
            obs.append({"name": "alloc-operate/rule=%d/frule=%d" % (rule, frule), "harness": "sim", "cube": {"spec": spec},
                        "params": [["w0", 1, 3], ["w1", 1, 3], ["f0", 0, 2], ["f1", 0, 2], ["q0", 0, 1], ["q1", 0, 1]], "timeout": 900 if thorough else 150, "engine": "zsym"})
    # the resource rules read the current skills: the run follows a complete run of the same objects with other skill maps
    ed = [dict(ob, engine="zsym") for ob in profiles.p_resource_rules(thorough, timeout=900 if thorough else 150)
          if "wprule=0" in ob["name"] and ("wrule=0/frule=0" in ob["name"] or "wrule=2/frule=2" in ob["name"] or thorough)]
    obs += profiles.with_history(ed, "edited-model", 1)
    # every task rule must also be accepted on a run that is continued from a saved file (FIFO reads the restored state logs)
    for rule in range(9):
        spec = {"tasks": [{"w": "$w%d" % i} for i in range(3)], "edges": [], "teams": [{"targets": [0, 1, 2], "workers": [{"skills": {"0": 1, "1": 1, "2": 1}}]}],
                "run": {"max_time": 12, "rule": rule}}
        obs += profiles.with_history([{"name": "alloc/rule=%d/indep/W=1" % rule, "harness": "sim", "cube": {"spec": spec},
                                       "params": [["w%d" % i, 1, 2] for i in range(3)], "timeout": 900 if thorough else 150, "engine": "zsym"}], "json-resume", 3)
    for rule in range(9):
        for shape, es in (("indep", []), ("fork", [(0, 1, 0), (0, 2, 0)]), ("join", [(0, 2, 0), (1, 2, 0)])):
            for nw in (1, 2, 3):
                for variant in ("plain", "skills", "fix", "solo-middle"):
                    if (nw == 3) != (variant == "solo-middle"):
                        continue
                    tasks = [{"w": "$w%d" % i} for i in range(3)]
                    if variant == "fix":
                        tasks[1]["fixw"] = [0]
                    ws = [{"skills": {str(i): ("$s%d" % i if (variant == "skills" and w == 0) else 1) for i in range(3)}, "abs": (["$a0"] if w == 0 else [])} for w in range(nw)]
                    if variant == "solo-middle":
                        # candidate order by the SSP worker rule (skill sum): worker 0 < worker 1 (solo) < worker 2
                        ws[0]["skills"] = {"0": 1, "1": 1}
                        ws[1] = {"skills": {"0": 1, "1": 1, "2": "$s12"}, "solo": True}
                        ws[2]["skills"] = {"0": 2, "1": 2, "2": 2}
                        for t in tasks:
                            t["wrule"] = 0
                    spec = {"tasks": tasks, "edges": [list(e) for e in es], "teams": [{"targets": [0, 1, 2], "workers": ws}], "run": {"max_time": 12, "rule": rule}}
                    params = [["w%d" % i, 1, 3 if thorough else 2] for i in range(3)] + [["a0", -1, 2]]
                    if variant == "skills":
                        params += [["s%d" % i, 0, 2] for i in range(3)]
                    if variant == "solo-middle":
                        params += [["s12", 0, 2]]
                    obs.append({"name": "alloc/rule=%d/%s/W=%d/%s" % (rule, shape, nw, variant), "harness": "sim", "cube": {"spec": spec}, "params": params,
                                "timeout": 900 if thorough else 150, "engine": "zsym"})
    # the rule passed to backward_simulate() governs the backward run as well (dependency-free members: nothing to reverse, so the
    # forward oracle applies step by step); one and two workers, one with a personal absence step
    for rule in range(9):
        for nw in (1, 2):
            ws = [{"skills": {str(i): 1 for i in range(3)}, "abs": (["$a0"] if w == 0 else [])} for w in range(nw)]
            spec = {"tasks": [{"w": "$w%d" % i} for i in range(3)], "edges": [], "teams": [{"targets": [0, 1, 2], "workers": ws}],
                    "run": {"max_time": 14, "rule": rule, "backward": True}}
            obs.append({"name": "alloc-backward/rule=%d/indep/W=%d" % (rule, nw), "harness": "sim", "cube": {"spec": spec},
                        "params": [["w%d" % i, 1, 4 if thorough else 3] for i in range(3)] + [["a0", -1, 2]], "timeout": 900 if thorough else 150, "engine": "zsym"})
    return obs


def obligations(tier, seed):
    return unit_obligations(tier, seed) + integration_obligations(tier)


def unit_obligations(tier, seed):
    thorough = tier == "thorough"
    nmax = 4 if thorough else 3
    K = 4 if thorough else 3
    T = 600 if thorough else 150
    obs = []
    for n in range(0, nmax + 1):
        for mode in TASK_MODES:
            # only the parameters the mode's key reads are symbolic; the others are pinned constants in the cube
            need = {0: ("e", "l"), 1: ("e",), 2: ("w",), 3: ("w",), 4: ("c",), 5: ("r",), 6: ("r",), 7: ("cp",), 8: ("cp",)}[mode]
            params = []
            cube = {"n": n, "mode": mode}
            for i in range(n):
                for nm, lo, hi in (("w", 0, K), ("e", 0, K), ("l", -1, K), ("r", 0, K), ("c", 0, 2), ("cp", 0, K)):
                    if nm in need:
                        params.append(["%s%d" % (nm, i), lo, hi])
                    else:
                        cube["%s%d" % (nm, i)] = 1
            obs.append({"name": "sort_task_list/mode=%d/n=%d" % (mode, n), "harness": "sort_tasks", "cube": cube, "params": params, "timeout": T})
    # workers.  Full domain (skills a,b in {missing,0,1,2} as far as the mode's key reads them, main workplace in
    # {None, wpA, wpB}, target in {absent, None, wpA}) up to n=2 (quick) / 3 (thorough); one size larger with a restricted
    # domain (skill b missing, skill a in {missing,0,1}, main workplace in {None, wpA}, target in {absent, wpA}).
    # Main-workplace selectors are cube constants (they pick string objects, nothing numeric).
    import itertools

    for n in range(0, nmax + 1):
        restricted = n == nmax
        msels = (0, 1) if restricted else (0, 1, 2)
        for mode in (-1, 0, 1, 2):
            for target in ((-1, 1) if restricted else (-1, 0, 1)):
                for ms in itertools.product(msels, repeat=n):
                    cube = {"n": n, "mode": mode, "target": target}
                    params = []
                    for i in range(n):
                        cube["m%d" % i] = ms[i]
                        if mode in (-1, 0, 2):
                            params.append(["k%da" % i, -1, 1 if restricted else 2])
                        else:
                            cube["k%da" % i] = 1
                        if mode in (-1, 0) and not restricted:
                            params.append(["k%db" % i, -1, 2])
                        else:
                            cube["k%db" % i] = -1
                        if mode == 1:
                            params.append(["c%d" % i, 0, K])
                        else:
                            cube["c%d" % i] = 1
                    obs.append({"name": "sort_worker_list/mode=%d/target=%d/n=%d/m=%s" % (mode, target, n, "".join(map(str, ms))), "harness": "sort_workers",
                                "cube": cube, "params": params, "timeout": T})
    for n in range(0, nmax + 1):
        for mode in (-1, 0, 1, 2):
            cube = {"n": n, "mode": mode}
            params = []
            for i in range(n):
                params += [["k%da" % i, -1, 2]]
                if mode == 0:
                    params.append(["k%db" % i, -1, 2 if n < nmax else 0])
                else:
                    cube["k%db" % i] = -1
                if mode == 1:
                    params.append(["c%d" % i, 0, K])
                else:
                    cube["c%d" % i] = 1
            obs.append({"name": "sort_facility_list/mode=%d/n=%d" % (mode, n), "harness": "sort_facilities", "cube": cube, "params": params, "timeout": T})
    for n in range(0, (3 if thorough else 3) + 1):
        for mode in (0, 1):
            cube = {"n": n, "mode": mode}
            params = []
            for i in range(n):
                if mode == 0:
                    params += [["cap%d" % i, 1, K], ["use%d" % i, 0, 2]]
                    cube.update({"k%d_0" % i: 1, "k%d_1" % i: -1})
                else:
                    params += [["k%d_0" % i, -1, 2 if n < 3 else 1], ["k%d_1" % i, -1, 2 if n < 3 else 1]]
                    cube.update({"cap%d" % i: 2, "use%d" % i: 1})
            if n == 3 and mode == 1:
                for k00 in (-1, 0, 1):
                    c2 = dict(cube)
                    c2["k0_0"] = k00
                    obs.append({"name": "sort_workplace_list/mode=%d/n=%d/k0_0=%d" % (mode, n, k00), "harness": "sort_workplaces", "cube": c2,
                                "params": [q for q in params if q[0] != "k0_0"], "timeout": T})
            else:
                obs.append({"name": "sort_workplace_list/mode=%d/n=%d" % (mode, n), "harness": "sort_workplaces", "cube": cube, "params": params, "timeout": T})
    return obs
