"""C08 - every log has one entry per simulated step, equal to that step's live state (any call history)."""
from engine.sym import exc_tag
from model.family import build, sim_kwargs, val
from model.observe import Observer, dump, concrete_sig, all_objects, log_attrs
from model.stubs import STUB_NOTES
from props import profiles
from props.histcore import Sim, diff_dumps, short_key, log_lengths
from props.simcore import SIM_FUNCTIONS, NONE, READY, WORKING, FINISHED, W_ABSENCE

META = {
    "rule": "one case = one symbolic path through a history of up to 3 API calls (simulate / resume / backward_simulate / reverse_log_information / "
            "initialize, all option combinations as cubes, max_time and work symbolic); non-trivial = at least one step simulated and >= 2 calls; distinct by concrete logs",
    "functions": SIM_FUNCTIONS + ["BaseProject.initialize/backward_simulate/reverse_log_information", "reverse_log_information/initialize of every model class"],
    "stubs": STUB_NOTES,
    "assumptions": profiles.ASSUMPTIONS + ["the list of per-step logs is found by reflection (attributes ending in _record_list, _id_record, cost_list), so a newly added log is included automatically"],
    "bounds": {"quick": {"history": "<= 2 calls (+ a third fixed simulate in some cubes)", "tasks": 2, "max_time": "0..6"}, "thorough": {"history": "<= 3 calls", "tasks": "2-3", "max_time": "0..8"}},
    "outside": profiles.OUTSIDE + ["histories longer than 3 calls"],
}
REQUIRED_COVERS = {"any": ["op:sim", "op:resume", "op:bwd", "op:rev", "op:init", "entry-checked", "absence-display"]}


def check_lengths(M, ctx, where):
    T = M.project.time
    for k, n in log_lengths(M).items():
        if n != T:
            ctx.fail("C08:length:%s:%s" % (where, short_key(k)))
            ctx.notes.setdefault("length_mismatch", "%s len=%d time=%s after %s" % (k, n, T, where))


def check_entries(M, obs, ctx):
    """Entry k of each log == live value at the recorded phase of step k (display rule on absence steps)."""
    for st in obs.steps:
        if "recorded" not in st:
            continue
        k, R = st["t"], st["recorded"]
        working = not any(True for a in M.run["abs"] if a == k)  # from the model's absence list, not from the implementation's flag
        ctx.cover("entry-checked")
        if not working:
            ctx.cover("absence-display")
        for i, t in enumerate(M.tasks):
            if not (k < len(t.state_record_list) and k < len(t.remaining_work_amount_record_list) and k < len(t.allocated_worker_id_record)):
                ctx.fail("C08:entry:task-log-too-short")
                continue
            live = R["tstate"][i]
            exp = READY if (live == WORKING and not working) else live
            if int(t.state_record_list[k]) != exp:
                ctx.fail("C08:entry:task.state_record_list")
            if t.remaining_work_amount_record_list[k] != R["rem"][i]:
                ctx.fail("C08:entry:task.remaining_work_amount_record_list")
            if list(t.allocated_worker_id_record[k]) != ["w%d" % w for w in R["talloc_w"][i]]:
                ctx.fail("C08:entry:task.allocated_worker_id_record")
            if list(t.allocated_facility_id_record[k]) != ["f%d" % f for f in R["talloc_f"][i]]:
                ctx.fail("C08:entry:task.allocated_facility_id_record")
        for w, wk in enumerate(M.workers):
            if not k < len(wk.state_record_list):
                ctx.fail("C08:entry:worker-log-too-short")
                continue
            exp = W_ABSENCE if not working else R["wstate"][w]
            if int(wk.state_record_list[k]) != exp:
                ctx.fail("C08:entry:worker.state_record_list")
            if list(wk.assigned_task_id_record[k]) != ["t%d" % i for i in R["wassign"][w]]:
                ctx.fail("C08:entry:worker.assigned_task_id_record")
        for f, fc in enumerate(M.facs):
            if not k < len(fc.state_record_list):
                ctx.fail("C08:entry:facility-log-too-short")
                continue
            exp = W_ABSENCE if not working else R["fstate"][f]
            if int(fc.state_record_list[k]) != exp:
                ctx.fail("C08:entry:facility.state_record_list")
            if list(fc.assigned_task_id_record[k]) != ["t%d" % i for i in R["fassign"][f]]:
                ctx.fail("C08:entry:facility.assigned_task_id_record")
        for ci, c in enumerate(M.comps):
            if not k < len(c.state_record_list):
                ctx.fail("C08:entry:component-log-too-short")
                continue
            live = R["cstate"][ci]
            exp = READY if (live == WORKING and not working) else live
            if int(c.state_record_list[k]) != exp:
                ctx.fail("C08:entry:component.state_record_list")
            pl = R["cplaced"][ci]
            if c.placed_workplace_id_record[k] != (None if pl is None else "wp%d" % pl):
                ctx.fail("C08:entry:component.placed_workplace_id_record")
        for pi, wp in enumerate(M.wps):
            if k < len(wp.placed_component_id_record):
                if list(wp.placed_component_id_record[k]) != ["c%d" % ci for ci in R["wpplaced"][pi]]:
                    ctx.fail("C08:entry:workplace.placed_component_id_record")
            else:
                ctx.fail("C08:entry:workplace-log-too-short")


def history(p, ctx):
    spec = p["spec"]
    ops = p["ops"]
    sigs = []
    with Sim(ctx):
        M = build(spec, p, ctx.symbolic)
        base_kw = sim_kwargs(M)
        for oi, op in enumerate(ops):
            kind = op[0]
            a = op[1] if len(op) > 1 else {}
            where = "%d:%s" % (oi, kind)
            if kind in ("sim", "resume"):
                kw = dict(base_kw, max_time=val(a.get("mt", 6), p))
                if kind == "resume":
                    kw.update(initialize_state_info=bool(a.get("state", 0)), initialize_log_info=bool(a.get("log", 0)))
                obs = Observer(M)
                with obs.installed():
                    ok, r = ctx.call(M.project.simulate, **kw)
                if not ok:
                    ctx.aborted = exc_tag(r)
                    ctx.fail("C08:raised:%s:%s" % (kind, ctx.aborted))
                    break
                check_entries(M, obs, ctx)
                ctx.cover("op:" + kind)
            elif kind == "bwd":
                kw = dict(base_kw, max_time=val(a.get("mt", 6), p), considering_due_time_of_tail_tasks=bool(a.get("due", 0)),
                          reverse_log_information=bool(a.get("rev", 1)))
                ok, r = ctx.call(M.project.backward_simulate, **kw)
                if not ok:
                    ctx.aborted = exc_tag(r)
                    ctx.fail("C08:raised:bwd:%s" % ctx.aborted)
                    break
                ctx.cover("op:bwd")
            elif kind == "rev":
                before = dump(M)
                ok1, r = ctx.call(M.project.reverse_log_information)
                once = dump(M)
                for key, val_ in before.items():
                    if isinstance(val_, list) and key != "project.absence_time_list":
                        if once.get(key) != val_[::-1]:
                            ctx.fail("C08:reverse-does-not-reverse:%s" % short_key(key))
                ok2, r = ctx.call(M.project.reverse_log_information)
                if not (ok1 and ok2):
                    ctx.fail("C08:raised:rev")
                    break
                k = diff_dumps(before, dump(M))
                if k is not None:
                    ctx.fail("C08:reverse-not-involution:%s" % short_key(k))
                ctx.call(M.project.reverse_log_information)
                ctx.cover("op:rev")
            elif kind == "init":
                ok, r = ctx.call(M.project.initialize, state_info=bool(a.get("state", 1)), log_info=bool(a.get("log", 1)))
                if not ok:
                    ctx.fail("C08:raised:init")
                    break
                ctx.cover("op:init")
            check_lengths(M, ctx, kind)
            sigs.append((kind, ctx.c(M.project.time), concrete_sig(M)))
    ctx.sig = tuple(sigs)
    ctx.nontrivial = len(ops) >= 2 and any(s[1] >= 1 for s in sigs)


def obligations(tier, seed):
    thorough = tier == "thorough"
    obs = []
    members = {}
    for k in (0, 2):
        members["wf-%s" % profiles.KN[k]] = ({"tasks": [{"w": "$w0", "due": "$d0"}, {"w": "$w1", "due": "$d1"}, {"w": 2, "auto": True}], "edges": [[0, 1, k]],
                                              "teams": profiles.layout_workers("shared1", 2) + [{"targets": [0], "workers": []}], "run": {"max_time": 6, "abs": ["$pa0"]}},
                                             [["w0", 0, 2], ["w1", 0, 2], ["pa0", -1, 2], ["d0", 0, 1], ["d1", 0, 1]])
    members["gap"] = ({"tasks": [{"w": "$w0", "comp": 0}, {"w": "$w1"}, {"w": 1, "comp": 0}, {"w": 1, "subproject": True}], "edges": [[0, 1, 0], [1, 2, 0], [0, 3, 0]],
                       "comps": [{"size": 1}], "teams": profiles.layout_workers("shared1", 4), "run": {"max_time": 8, "abs": ["$pa0"]}},
                      [["w0", 1, 2], ["w1", 1, 2], ["pa0", 0, 4]])
    fac = [ob for ob in profiles.p_product("F1", thorough) if "wps=2/links=0>1/wprule=0/fs" in ob["name"]][0]
    members["prod"] = (fac["cube"]["spec"], [[n, max(lo, 1), min(hi, 2)] for n, lo, hi in fac["params"]])
    # a component with two parent components (the product is a DAG, not a tree)
    members["dag"] = ({"tasks": [{"w": "$w0", "comp": 2}, {"w": "$w1", "comp": 0}, {"w": 1, "comp": 1}], "edges": [[0, 1, 0]],
                       "comps": [{"size": 1, "children": [2]}, {"size": 1, "children": [2]}, {"size": 1}],
                       "teams": profiles.layout_workers("shared1", 3), "run": {"max_time": 8, "abs": ["$pa0"]}},
                      [["w0", 1, 2], ["w1", 1, 2], ["pa0", -1, 3]])
    # one nesting level with a single parent (a chain of three components: parent, child, grandchild)
    members["nest"] = ({"tasks": [{"w": "$w0", "comp": 2}, {"w": "$w1", "comp": 1}, {"w": 1, "comp": 0}], "edges": [[0, 1, 0], [1, 2, 0]],
                        "comps": [{"size": 1, "children": [1]}, {"size": 1, "children": [2]}, {"size": 1}],
                        "teams": profiles.layout_workers("shared1", 3), "run": {"max_time": 8, "abs": ["$pa0"]}},
                       [["w0", 1, 2], ["w1", 1, 2], ["pa0", -1, 3]])
    firsts = [["sim", {"mt": "$m0"}], ["bwd", {"mt": "$m0", "due": 0, "rev": 1}], ["bwd", {"mt": "$m0", "due": 1, "rev": 0}]]
    seconds = [["sim", {"mt": "$m1"}]]
    for st in (0, 1):
        for lg in (0, 1):
            seconds.append(["resume", {"mt": "$m1", "state": st, "log": lg}])
            seconds.append(["init", {"state": st, "log": lg}])
    seconds += [["bwd", {"mt": "$m1", "due": 1, "rev": 1}], ["rev"]]
    thirds = [None, ["resume", {"mt": 6, "state": 0, "log": 0}], ["rev"]] if not thorough else \
        [None, ["resume", {"mt": 8, "state": 0, "log": 0}], ["rev"], ["sim", {"mt": 8}], ["bwd", {"mt": 8, "due": 1, "rev": 1}], ["init", {"state": 1, "log": 0}]]
    for mname, (spec, params) in members.items():
        for f in firsts:
            for s in seconds:
                for t in thirds:
                    if mname == "prod" and not thorough and t is not None:
                        continue
                    if mname in ("dag", "nest") and (t is not None or s[0] == "init" or (s[0] == "resume" and (s[1]["state"] or s[1]["log"]))):
                        continue
                    ops = [f, s] + ([t] if t else [])
                    nm = "hist/%s/%s" % (mname, ">".join(o[0] + ("".join("%s%s" % (k[0], v) for k, v in sorted(o[1].items()) if k != "mt") if len(o) > 1 else "") for o in ops))
                    mmax = 8 if thorough else 6
                    pr = list(params) + [["m0", 0, mmax]] + ([["m1", 0, mmax]] if any("$m1" in str(o) for o in ops) else [])
                    if mname == "prod":
                        pr = [q for q in pr if q[0] not in ("z1", "fs1")] + []
                        spec2 = spec
                        cube = {"spec": spec2, "ops": ops, "z1": 1, "fs1": 1}
                    else:
                        cube = {"spec": spec, "ops": ops}
                    obs.append({"name": nm, "harness": "history", "cube": cube, "params": pr, "timeout": 900 if thorough else 150, "engine": "zsym"})
    return obs
