"""C04 - oracle over observed simulate() runs (see props/oracles.py:c04)."""
from props.simcore import run_sim, SIM_FUNCTIONS
from props import profiles, oracles
from model.stubs import STUB_NOTES

META = {
    "rule": "one case = one symbolic path of simulate() on a family member (a class of work amounts/skills/costs/absence steps with the same schedule); "
            "non-trivial by the oracle's own rule (work allocated / >= 2 steps); distinct by the concrete state and allocation logs",
    "functions": SIM_FUNCTIONS,
    "stubs": STUB_NOTES,
    "assumptions": profiles.ASSUMPTIONS,
    "bounds": profiles.BOUNDS_TEXT,
    "outside": profiles.OUTSIDE,
}

REQUIRED_COVERS = {"any": profiles.REQUIRED["C04"]}

CROSSCHECK = {"thorough": 8}


def sim(p, ctx):
    M = run_sim(p, ctx)
    oracles.c04(M, ctx)


def sim_history(p, ctx):
    from props.simcore import run_sim_history

    M = run_sim_history(p, ctx, p["mode"])
    if M.exc is None:
        oracles.c04(M, ctx)


def obligations(tier, seed):
    return profiles.obligations_for("C04", tier)
