"""Profiles: which members of the model family each property explores, per tier (DESIGN §3.1, §4).

A profile function returns a list of obligations (cube = full spec with "$param" placeholders + structural constants,
params = solver variables with ranges).  Structural choices with tiny domains (edge set, dependency kind per edge,
worker layout, rule) are cubes; numbers (work, skills, costs, sizes, absence steps, max_time) are solver variables.
"""
import itertools

ASSUMPTIONS = [
    "IDs unique within each kind of object (the idclash / bare-ID members reuse the same ID text across kinds); task names distinct (skills are keyed by task name) except in the same-name members of C17; "
    "unit_time = 1 except in the members named unit2/... (C04, C07); error_tol default; task_performed_mode = multi-workers",
    "deterministic skills (standard deviation 0)",
    "numbers are small integers or dyadic rationals k/2 (exact in both IEEE double and the solver's real arithmetic)",
    "a task with need_facility has a target component and at least one allocated workplace",
]
BOUNDS_TEXT = {
    "quick": {"tasks": "<= 3", "work": "0..2 (0..3 in 2-task profiles)", "workers": "<= 3", "horizon max_time": "<= 8"},
    "thorough": {"tasks": "<= 4", "work": "0..3", "workers": "<= 3", "horizon max_time": "<= 12"},
}
OUTSIDE = [
    "sizes/amounts/horizons beyond the bounds", "non-dyadic skills and floating-point accumulation", "random skills (sd != 0)",
    "WORKING_ADDITIONALLY (never set by base code)", "unit_time > 2, and unit_time = 2 outside the unit2/... members",
]

REQUIRED = {
    "C02": ["finish", "multi-worker", "must-finish", "absent-worker-on-working-task"],
    "C03": ["release-on-finish", "worker-holds"],
    "C04": ["allocation", "pair", "solo-alone", "shared-id-text", "unit-time-2"],
    "C05": ["success", "failure", "feasible-with-enough-time", "unserved-task"],
    "C06": ["free-worker-and-active-task", "idle-but-task-cannot-accept", "must-finish"],
    "C07": ["charged", "absence-step"],
    "C10": ["project-absence-step", "worker-absence", "auto-at-absence"],
    "C12": ["pert-at-later-step", "unit:second-update", "unit:grown"],
    "C13": ["two-components-share-workplace", "finished-component-released", "entered-workplace-with-inputs", "moved-between-workplaces", "facility-used"],
    "C14": ["component-without-task", "component-with-two-tasks"],
}

KN = {0: "FS", 1: "SS", 2: "FF", 3: "SF"}


def _team(workers, targets):
    return {"targets": targets, "workers": workers}


def layout_workers(layout, T, skill="1"):
    """Worker layouts.  private: one worker per task (parallel execution possible); sharedN: N interchangeable workers."""
    alltasks = list(range(T))
    if layout == "private":
        ws = [{"skills": {str(i): 1}} for i in range(T)]
    elif layout.startswith("shared"):
        n = int(layout[6:])
        ws = [{"skills": {str(i): 1 for i in range(T)}} for _ in range(n)]
    else:
        raise ValueError(layout)
    return [_team(ws, alltasks)]


def all_edge_sets(T):
    pairs = [(i, j) for i in range(T) for j in range(i + 1, T)]
    for bits in itertools.product((0, 1), repeat=len(pairs)):
        yield [pr for pr, b in zip(pairs, bits) if b]


def wf_cubes(T, layouts, wmax, kinds=(0, 1, 2, 3), edge_sets=None, H=8, rule=0, name="wf", timeout=120, extra_task=None, run_extra=None):
    obs = []
    for es in (edge_sets if edge_sets is not None else list(all_edge_sets(T))):
        for ks in itertools.product(kinds, repeat=len(es)):
            for layout in layouts:
                tasks = []
                for i in range(T):
                    t = {"w": "$w%d" % i}
                    if extra_task:
                        t.update(extra_task(i))
                    tasks.append(t)
                spec = {
                    "tasks": tasks,
                    "edges": [[i, j, k] for (i, j), k in zip(es, ks)],
                    "teams": layout_workers(layout, T),
                    "run": dict({"max_time": H, "rule": rule}, **(run_extra or {})),
                }
                nm = "%s/T=%d/%s/edges=%s" % (name, T, layout, ",".join("%d%s%d" % (i, KN[k], j) for (i, j), k in zip(es, ks)) or "-")
                if rule:
                    nm += "/rule=%d" % rule
                obs.append({"name": nm, "harness": "sim", "cube": {"spec": spec}, "params": [["w%d" % i, 0, wmax] for i in range(T)], "timeout": timeout})
    return obs


def p_subproject_edges(wmax=2, H=10, timeout=150, T=3):
    """A sub-project task (an automatic task of its own class) as successor and as predecessor of every kind of dependency."""
    obs = []
    for k1 in (0, 1, 2, 3):
        for k2 in (0, 1, 2, 3):
            spec = {"tasks": [{"w": "$w0"}, {"w": "$w1", "subproject": True, "rate": 1}, {"w": "$w2"}], "edges": [[0, 1, k1], [1, 2, k2]],
                    "teams": layout_workers("private", 3), "run": {"max_time": H}}
            obs.append({"name": "subproject/0%s1+1%s2" % (KN[k1], KN[k2]), "harness": "sim", "cube": {"spec": spec},
                        "params": [["w%d" % i, 0, wmax] for i in range(3)], "timeout": timeout})
    return obs


def with_decoy(obs, idx):
    """The same members, with a second (never simulated) workflow object built over some of the same task objects."""
    out = []
    for ob in obs:
        out.append(dict(ob, name="decoy%s/%s" % ("".join(map(str, idx)), ob["name"]), cube=dict(ob["cube"], spec=dict(ob["cube"]["spec"], decoy_wf=list(idx)))))
    return out


def p_double_edges(wmax=2, H=10, timeout=150):
    """Two dependencies of different kinds between the same pair of tasks (registered in both orders), behind a third task."""
    obs = []
    for k1 in (0, 1, 2, 3):
        for k2 in (0, 1, 2, 3):
            if k1 == k2:
                continue
            spec = {"tasks": [{"w": "$w%d" % i} for i in range(3)], "edges": [[0, 1, 0], [1, 2, k1], [1, 2, k2]],
                    "teams": layout_workers("private", 3), "run": {"max_time": H}}
            obs.append({"name": "double/1%s2+1%s2" % (KN[k1], KN[k2]), "harness": "sim", "cube": {"spec": spec},
                        "params": [["w%d" % i, 0, wmax] for i in range(3)], "timeout": timeout})
    return obs


def p_progress_auto(T=2, wmax=3, H=8, timeout=150):
    """P2: default progress / auto tasks, one edge of every kind."""
    obs = []
    for k in (0, 1, 2, 3):
        for autos in itertools.product((0, 1), repeat=T):
            spec = {
                "tasks": [{"w": "$w%d" % i, "g": "$g%d" % i, "auto": bool(autos[i]), "rate": 1} for i in range(T)],
                "edges": [[0, 1, k]],
                "teams": layout_workers("private", T),
                "run": {"max_time": H},
            }
            obs.append({
                "name": "prog/T=%d/k=%s/auto=%s" % (T, KN[k], "".join(map(str, autos))), "harness": "sim", "cube": {"spec": spec},
                "params": [["w%d" % i, 0, wmax] for i in range(T)] + [["g%d" % i, 0, 2] for i in range(T)], "timeout": timeout,
            })
    return obs


def p_absence(T=2, wmax=2, H=8, timeout=200, kinds=(0, 1, 2, 3), flags=(False, True), worker_absence=True):
    """P3: project-wide absence (two symbolic steps), per-worker absence (one symbolic step each), auto flag."""
    obs = []
    for k in kinds:
        for flag in flags:
            for auto1 in (False, True):
                ws = [dict({"skills": {str(i): 1}}, **({"abs": ["$wa%d" % i]} if worker_absence else {})) for i in range(T)]
                spec = {
                    "tasks": [{"w": "$w%d" % i, "auto": (auto1 and i == 1)} for i in range(T)],
                    "edges": [[0, 1, k]],
                    "teams": [_team(ws, list(range(T)))],
                    "run": {"max_time": H, "abs": ["$pa0", "$pa1"], "flag": flag},
                }
                obs.append({
                    "name": "abs%s/T=%d/k=%s/flag=%d/auto1=%d" % ("" if worker_absence else "-noworkerabs", T, KN[k], flag, auto1), "harness": "sim", "cube": {"spec": spec},
                    "params": [["w%d" % i, 0, wmax] for i in range(T)] + ([["wa%d" % i, -1, 3] for i in range(T)] if worker_absence else []) + [["pa0", -1, 4], ["pa1", -1, 4]],
                    "pre": "pa0 <= pa1", "timeout": timeout,
                })
    return obs


def p_rules(wmax=2, H=8, timeout=150, rules=range(9), shapes=None):
    """P4: fork/join shapes under every task priority rule, two shared workers (contention)."""
    shapes = shapes or {"fork": [(0, 1), (0, 2)], "join": [(0, 2), (1, 2)], "indep": []}
    obs = []
    for sname, es in shapes.items():
        for rule in rules:
            spec = {
                "tasks": [{"w": "$w%d" % i} for i in range(3)],
                "edges": [[i, j, 0] for (i, j) in es],
                "teams": layout_workers("shared2", 3),
                "run": {"max_time": H, "rule": rule},
            }
            obs.append({"name": "rules/%s/rule=%d" % (sname, rule), "harness": "sim", "cube": {"spec": spec},
                        "params": [["w%d" % i, 0, wmax] for i in range(3)], "timeout": timeout})
    return obs


def p_contention(thorough=False, H=8, timeout=120):
    """Contention: 3 tasks, 2-3 workers; skills of worker 0 symbolic (0 = no skill), work symbolic, one symbolic
    absence step for worker 0; cubes over shape, task rule, solo flag, fixed-id list, team layout."""
    obs = []
    shapes = {"indep": [], "fork": [(0, 1, 0), (0, 2, 0)], "ss": [(0, 1, 1)], "ff": [(0, 2, 2)]}
    rules = (0, 2, 4, 5) if not thorough else range(9)
    variants = []
    for solo in (None, 0):
        for fix in (None, "t0:w1", "t1:none"):
            for teams in ("one", "two"):
                variants.append((solo, fix, teams))
    for sname, es in shapes.items():
        for rule in rules:
            for (solo, fix, teams) in variants:
                if not thorough and (sname in ("ss", "ff")) and (rule != 0 or fix is not None):
                    continue
                # three workers only on a slice of the thorough cubes (the third worker adds two symbolic parameters)
                nW = 3 if (fix is None and teams == "one" and rule == 0 and (thorough or sname in ("indep", "fork"))) else 2
                tasks = [{"w": "$w%d" % i} for i in range(3)]
                if fix == "t0:w1":
                    tasks[0]["fixw"] = [1]
                elif fix == "t1:none":
                    tasks[1]["fixw"] = []
                ws = []
                for w in range(nW):
                    if w == 0:
                        wk = {"skills": {str(i): "$s0%d" % i for i in range(3)}, "abs": (["$a0", "$a0b"] if (sname == "indep" and rule == 0 and fix is None) else ["$a0"]), "cost": 1}
                    elif w == 1:
                        wk = {"skills": {"0": 1, "1": 1, "2": 1}}
                    else:
                        wk = {"skills": {"0": 1, "1": 2, "2": "$s22"}, "abs": ["$a2"]}
                    if nW == 3 and solo is not None:
                        # with three workers the solo one is the middle candidate
                        if w == 1:
                            wk["solo"] = True
                    elif solo == w:
                        wk["solo"] = True
                    ws.append(wk)
                if teams == "one":
                    tm = [_team(ws, [0, 1, 2])]
                else:
                    tm = [_team(ws[:1], [0, 1]), _team(ws[1:], [0, 1, 2])]
                spec = {"tasks": tasks, "edges": [list(e) for e in es], "teams": tm, "run": {"max_time": H, "rule": rule}}
                params = [["w%d" % i, 1, 2 if (not thorough or nW == 3) else 3] for i in range(3)] + [["s0%d" % i, 0, 2] for i in range(3)] + [["a0", -1, 2]]
                if nW == 3:
                    params += [["s22", 0, 2], ["a2", -1, 1 if thorough else -1]]
                if sname == "indep" and rule == 0 and fix is None:
                    params += [["a0b", -1, 1]]  # listed after a0 and possibly smaller: the list need not be sorted
                obs.append({"name": "cont/%s/rule=%d/solo=%s/fix=%s/teams=%s" % (sname, rule, solo, fix, teams), "harness": "sim",
                            "cube": {"spec": spec}, "params": params, "timeout": timeout})
    return obs


def p_facility(thorough=False, H=8, timeout=120):
    """Facility tasks: 2 tasks each with its own single-task component, 1-2 workplaces with facilities,
    workers with facility skills; symbolic work, worker skill, facility skills, capacity."""
    obs = []
    layouts = ["1wp2f", "2wp"]
    for layout in layouts:
        for fsk in ("all", "w0f0-only"):
            for solo_f in (False, True, "worker"):
                for fixf in (None, "t0:f1", "t0:f1+w1"):
                    for mixed in (False, True):
                        tasks = [{"w": "$w0", "nf": True, "comp": 0}, {"w": "$w1", "nf": (not mixed), "comp": 1}]
                        if fixf in ("t0:f1", "t0:f1+w1"):
                            tasks[0]["fixf"] = [1]
                        if fixf == "t0:f1+w1":
                            tasks[0]["fixw"] = [1]
                        if layout == "1wp2f":
                            wps = [{"targets": [0, 1], "cap": "$cap", "facs": [
                                {"skills": {"0": "$f00", "1": 1}, "solo": solo_f is True, "abs": ["$fa0"]},
                                {"skills": {"0": 1, "1": "$f11"}}]}]
                            nf = 2
                        else:
                            wps = [{"targets": [0, 1], "cap": "$cap", "facs": [{"skills": {"0": "$f00", "1": 1}, "solo": solo_f is True, "abs": ["$fa0"]}]},
                                   {"targets": [0, 1], "cap": 1, "facs": [{"skills": {"0": 1, "1": "$f11"}}]}]
                            nf = 2
                        for t in tasks:
                            t["wps"] = list(range(len(wps)))
                        if fsk == "all":
                            fs0 = {str(f): 1 for f in range(nf)}
                            fs1 = {str(f): 1 for f in range(nf)}
                        else:
                            fs0 = {"0": 1}
                            fs1 = {"0": 0, "1": 1}
                        ws = [{"skills": {"0": "$s00", "1": 1}, "fskills": fs0}, {"skills": {"0": 1, "1": 1}, "fskills": fs1, "abs": ["$a1"]}]
                        if solo_f == "worker":
                            # worker 1 works solo and has the larger skill sum (served second under the SSP worker rule)
                            ws[1] = {"skills": {"0": 2, "1": 2}, "fskills": fs1, "abs": ["$a1"], "solo": True}
                            for t in tasks:
                                t["wrule"] = 0
                        spec = {"tasks": tasks, "edges": [], "teams": [_team(ws, [0, 1])], "wps": wps,
                                "comps": [{"size": 1}, {"size": 1}], "run": {"max_time": H}}
                        params = [["w0", 1, 3 if thorough else 2], ["w1", 1, 2], ["s00", 0, 2], ["f00", 0, 2], ["f11", 0, 2], ["cap", 1, 2], ["fa0", -1, 1], ["a1", -1, 1]]
                        obs.append({"name": "fac/%s/fsk=%s/solof=%d/fixf=%s/mixed=%d" % (layout, fsk, {False: 0, True: 1, "worker": 2}[solo_f], fixf, mixed), "harness": "sim",
                                    "cube": {"spec": spec}, "params": params, "timeout": timeout})
    return obs


def p_idclash(thorough=False, H=8, timeout=150):
    """Objects of different kinds carry the same ID text ("0", "1", ... per kind): team 0 / workplace 0 / worker 0 / facility 0 / task 0.
    Team 0 is assigned to task 0 only, workplace 0 to both tasks; team 1 to both tasks, workplace 1 to task 0 only."""
    obs = []
    for nf1 in (False, True):
        tasks = [{"w": "$w0", "nf": True, "comp": 0}, {"w": "$w1", "nf": nf1, "comp": 1 if nf1 else None}]
        wps = [{"targets": [0, 1], "cap": 2, "facs": [{"skills": {"0": 1, "1": 1}}, {"skills": {"0": "$f10", "1": 1}}]},
               {"targets": [0], "cap": 1, "facs": [{"skills": {"0": 1, "1": 1}}]}]
        ws0 = [{"skills": {"0": "$s00", "1": 1}, "fskills": {"0": 1, "1": 1, "2": 1}}]
        ws1 = [{"skills": {"0": 1, "1": "$s11"}, "fskills": {"0": 1, "1": 1, "2": 1}, "abs": ["$a1"]}]
        spec = {"tasks": tasks, "edges": [], "teams": [_team(ws0, [0]), _team(ws1, [0, 1])], "wps": wps, "comps": [{"size": 1}, {"size": 1}],
                "run": {"max_time": H}, "idstyle": "bare"}
        obs.append({"name": "idclash/nf1=%d" % nf1, "harness": "sim", "cube": {"spec": spec},
                    "params": [["w0", 1, 3 if thorough else 2], ["w1", 1, 3 if thorough else 2], ["s00", 0, 2], ["s11", 0, 2], ["f10", 0, 1], ["a1", -1, 2]], "timeout": timeout})
    return obs


def p_auto_in_workplace(thorough=False, H=8, timeout=150):
    """An automatic task without a component that is nevertheless listed among a workplace's targeted tasks (and a team's), next to a
    facility task; every dependency kind between the two, in both directions."""
    obs = []
    for k in (0, 1, 2, 3):
        for first_auto in (False, True):
            ta = {"w": "$w1", "auto": True, "rate": 1}
            tf = {"w": "$w0", "nf": True, "comp": 0}
            tasks = [ta, tf] if first_auto else [tf, ta]
            fi = 1 if first_auto else 0
            wps = [{"targets": [0, 1], "cap": 1, "facs": [{"skills": {"0": 1, "1": 1}, "abs": ["$fa0"]}]}]
            ws = [{"skills": {"0": 1, "1": 1}, "fskills": {"0": 1}}]
            spec = {"tasks": tasks, "edges": [[0, 1, k]], "teams": [_team(ws, [0, 1])], "wps": wps, "comps": [{"size": 1}], "run": {"max_time": H}}
            spec["tasks"][fi]["comp"] = 0
            obs.append({"name": "autowp/k=%s/auto-first=%d" % (KN[k], first_auto), "harness": "sim", "cube": {"spec": spec},
                        "params": [["w0", 0, 3 if thorough else 2], ["w1", 0, 3 if thorough else 2], ["fa0", -1, 2]], "timeout": timeout})
    return obs


def p_conveyor(thorough=False, H=10, timeout=150):
    """One component, conveyor line wp0 -> wp1 -> wp2.  Task 0 needs a facility at wp0; its successors are task 1 (no facility needed, but
    bound to the component and assigned to wp1) and task 2 (facility at wp2, which accepts components from wp1 only)."""
    obs = []
    for k in (0, 1):
        for wprule in (0, 1):
            tasks = [{"w": "$w0", "nf": True, "comp": 0, "wprule": wprule}, {"w": "$w1", "comp": 0, "wprule": wprule}, {"w": "$w2", "nf": True, "comp": 0, "wprule": wprule}]
            wps = [{"targets": [0], "cap": 1, "facs": [{"skills": {"0": 1}}]},
                   {"targets": [1], "cap": 1, "facs": [{"skills": {"1": 1}}], "inputs": [0]},
                   {"targets": [2], "cap": 1, "facs": [{"skills": {"2": "$fs2"}}], "inputs": [1]}]
            # worker 0 has a personal absence step; worker 1's skill for the middle task is symbolic as well (0 = only worker 0 can do it)
            ws = [{"skills": {"0": 1, "1": "$s1", "2": 1}, "fskills": {"0": 1, "1": 1, "2": 1}, "abs": ["$a0"]},
                  {"skills": {"0": 1, "1": "$s11", "2": 1}, "fskills": {"0": 1, "1": 1, "2": 1}}]
            spec = {"tasks": tasks, "edges": [[0, 1, k], [0, 2, 0]], "teams": [_team(ws, [0, 1, 2])], "wps": wps, "comps": [{"size": 1}], "run": {"max_time": H}}
            obs.append({"name": "prod/conveyor/k=%s/wprule=%d" % (KN[k], wprule), "harness": "sim", "cube": {"spec": spec},
                        "params": [["w0", 1, 2], ["w1", 1, 3 if thorough else 2], ["w2", 1, 2], ["s1", 0, 2], ["s11", 0, 1], ["fs2", 0, 1], ["a0", -1, 3]], "timeout": timeout})
    return obs


def with_bare_ids(obs):
    """The same members with the IDs "0", "1", ... for every kind of object (the ID text is then shared across kinds)."""
    return [dict(ob, name="bare/" + ob["name"], cube=dict(ob["cube"], spec=dict(ob["cube"]["spec"], idstyle="bare"))) for ob in obs]


def with_unit_time(obs, unit, H, widen=()):
    """The same members simulated with unit_time = `unit` (the clock advances by `unit` per step; absence lists hold times)."""
    out = []
    for ob in obs:
        spec = dict(ob["cube"]["spec"])
        spec["run"] = dict(spec["run"], unit_time=unit, max_time=H)
        pr = [[n, lo, hi * unit] if (n in widen and hi > 0) else [n, lo, hi] for n, lo, hi in ob["params"]]
        out.append(dict(ob, name="unit%d/%s" % (unit, ob["name"]), cube=dict(ob["cube"], spec=spec), params=pr))
    return out


def p_resource_rules(thorough=False, H=8, timeout=150):
    """Every worker / facility / workplace priority rule on a facility task with two candidate workers and facilities."""
    obs = []
    for wrule in (-1, 0, 1, 2):
        for frule in (-1, 0, 1, 2):
            for wprule in (0, 1):
                if not thorough and wprule == 1 and (wrule, frule) not in ((0, 0), (2, 2), (-1, -1)):
                    continue
                tasks = [{"w": "$w0", "nf": True, "comp": 0, "wps": [0, 1], "wrule": wrule, "frule": frule, "wprule": wprule},
                         {"w": "$w1", "wrule": wrule}]
                wps = [{"targets": [0], "cap": 1, "facs": [{"skills": {"0": "$f0"}, "cost": "$cf0"}, {"skills": {"0": 1}, "cost": 1}]},
                       {"targets": [0], "cap": "$cap1", "facs": [{"skills": {"0": 2}, "cost": 1}]}]
                ws = [{"skills": {"0": "$s0", "1": 1}, "fskills": {"0": 1, "1": 1, "2": 1}, "cost": "$c0", "mw": 0},
                      {"skills": {"0": 1, "1": 1}, "fskills": {"0": 1, "1": 1, "2": 1}, "cost": 1, "mw": 1}]
                spec = {"tasks": tasks, "edges": [], "teams": [_team(ws, [0, 1])], "wps": wps, "comps": [{"size": 1}], "run": {"max_time": H}}
                params = [["w0", 1, 3 if thorough else 2], ["w1", 1, 2], ["f0", 0, 2], ["s0", 0, 2], ["cf0", 0, 2], ["c0", 0, 2], ["cap1", 0, 1]]
                obs.append({"name": "rrules/wrule=%d/frule=%d/wprule=%d" % (wrule, frule, wprule), "harness": "sim", "cube": {"spec": spec}, "params": params, "timeout": timeout})
    return obs


def p_nested_release(thorough=False, H=12, timeout=150):
    obs = []
    for wprule in (0, 1):
        tasks = [{"w": "$w0", "nf": True, "comp": 1, "wprule": wprule}, {"w": "$w1", "nf": True, "comp": 2, "wprule": wprule},
                 {"w": "$w2", "nf": True, "comp": 0, "wprule": wprule}, {"w": "$w3", "nf": True, "comp": 3, "wprule": wprule}]
        comps = [{"size": 1, "children": [1, 2]}, {"size": 1}, {"size": 1}, {"size": "$zd"}]
        wps = [{"targets": [0, 1, 3], "cap": "$cap0", "facs": [{"skills": {"0": 1, "1": 1, "3": 1}}, {"skills": {"0": 1, "1": 1, "3": 1}}]},
               {"targets": [2], "cap": 3, "facs": [{"skills": {"2": 1}}]}]
        ws = [{"skills": {str(i): 1 for i in range(4)}, "fskills": {"0": 1, "1": 1, "2": 1}} for _ in range(3)]
        spec = {"tasks": tasks, "edges": [[0, 2, 0], [1, 2, 0]], "teams": [_team(ws, [0, 1, 2, 3])], "wps": wps, "comps": comps, "run": {"max_time": H}}
        obs.append({"name": "prod/N3/wprule=%d" % wprule, "harness": "sim", "cube": {"spec": spec},
                    "params": [["w0", 1, 2], ["w1", 1, 2], ["w2", 1, 2], ["w3", 1, 2], ["zd", 1, 2], ["cap0", 2, 3]], "timeout": timeout})
    return obs


def p_cost(thorough=False, H=8, timeout=120):
    """Cost accounting: symbolic cost rates, work, absence steps; two teams, optional workplace with a facility."""
    obs = []
    for with_fac in (False, True):
        for k in (0, 1):
            tasks = [{"w": "$w0"}, {"w": "$w1"}]
            wps, comps = [], []
            if with_fac:
                tasks[1].update({"nf": True, "comp": 0, "wps": [0]})
                wps = [{"targets": [1], "cap": 1, "facs": [{"skills": {"1": 1}, "cost": "$cf", "abs": ["$fa0"]}]}]
                comps = [{"size": 1}]
            ws0 = [{"skills": {"0": 1, "1": 1}, "cost": "$c0", "abs": ["$a0"], "fskills": {"0": 1}}]
            ws1 = [{"skills": {"0": 1, "1": 1}, "cost": "$c1", "fskills": {"0": 1}}]
            spec = {"tasks": tasks, "edges": [[0, 1, k]], "teams": [_team(ws0, [0, 1]), dict(_team(ws1, [0, 1]), parent=0)], "wps": wps, "comps": comps,
                    "run": {"max_time": H, "abs": ["$pa0", "$pa1"]}}
            params = [["w0", 0, 3], ["w1", 0, 3], ["c0", 0, 3], ["c1", 0, 3], ["a0", -1, 2], ["pa0", -1, 3], ["pa1", -1, 3]]
            if with_fac:
                params += [["cf", 0, 2], ["fa0", -1, 2]]
            obs.append({"name": "cost/fac=%d/k=%s" % (with_fac, KN[k]), "harness": "sim", "cube": {"spec": spec}, "params": params, "pre": "pa0 <= pa1", "timeout": timeout})
    return obs


def p_feasible(thorough=False, timeout=150):
    """C05 liveness: all kinds, private/shared workers, skill 1..2 (worker 0's skills symbolic incl. 0 = cannot serve),
    one symbolic project absence step and one worker absence step; max_time above the sequential bound."""
    obs = []
    T = 3 if thorough else 2
    wmax = 2
    H = T + 1 + T * (wmax + 1) + 2 + 1  # bound + 1
    edge_sets = list(all_edge_sets(T))
    for es in edge_sets:
        for ks in itertools.product((0, 1, 2, 3), repeat=len(es)):
            for layout in ("private", "shared1", "shared2", "mixed", "chainshare"):
                if layout == "chainshare" and any(k in (2, 3) for k in ks):
                    continue  # the strong feasibility predicate asks for private workers with FF/SF links
                if len(es) == 3 and (layout in ("shared2", "chainshare") or len(set(ks)) > 2):
                    continue  # (budget) the complete three-task graph: private / shared1 / mixed workers, at most two kinds of dependency
                if layout == "private":
                    ws = [{"skills": {str(i): ("$s%d" % i)}, "abs": (["$a0"] if i == 0 else [])} for i in range(T)]
                elif layout.startswith("shared"):
                    nw = int(layout[6:])
                    ws = [{"skills": {str(i): ("$s%d" % i if w == 0 else 1) for i in range(T)}, "abs": (["$a0"] if w == 0 else [])} for w in range(nw)]
                elif layout == "chainshare":
                    # worker 0 serves every task and has the absence step; worker 1 only helps on task 0
                    ws = [{"skills": {str(i): 1 for i in range(T)}, "abs": ["$a0"]}, {"skills": {"0": "$s0"}}]
                else:
                    ws = [{"skills": {str(i): "$s%d" % i}, "abs": (["$a0"] if i == 0 else [])} for i in range(T)] + [{"skills": {str(i): 1 for i in range(T)}}]
                spec = {"tasks": [{"w": "$w%d" % i} for i in range(T)], "edges": [[i, j, k] for (i, j), k in zip(es, ks)],
                        "teams": [_team(ws, list(range(T)))], "run": {"max_time": H, "abs": ["$pa0"]}}
                if layout == "shared2" and len(es) <= 1:
                    # the last task admits nobody (empty fixed-ID list): it can never be served
                    spec["tasks"][T - 1]["fixw"] = []
                params = [["w%d" % i, 0, wmax] for i in range(T)] + [["s%d" % i, 0, 2] for i in range(T)] + [["a0", -1, 2], ["pa0", -1, 2]]
                if layout == "chainshare":
                    params = [["w%d" % i, 0, 3] for i in range(T)] + [["s0", 0, 2], ["a0", -1, 3], ["pa0", -1, 2]]
                obs.append({"name": "live/T=%d/%s/edges=%s" % (T, layout, ",".join("%d%s%d" % (i, KN[k], j) for (i, j), k in zip(es, ks)) or "-"),
                            "harness": "sim", "cube": {"spec": spec}, "params": params, "timeout": timeout})
    return obs


def p_solo_fixed(thorough=False, timeout=150):
    """A task restricted to a fixed worker ID list whose listed worker may lack the skill, next to a skilled solo-working worker who is not
    on the list (and the same with a solo-working facility that is not on the fixed facility list)."""
    obs = []
    for k in (0, 1, 2, 3):
        ws = [{"skills": {"0": 1, "1": 1}, "solo": True}, {"skills": {"0": "$s10", "1": "$s11"}}]
        spec = {"tasks": [{"w": "$w0"}, {"w": "$w1", "fixw": [1]}], "edges": [[0, 1, k]], "teams": [_team(ws, [0, 1])], "run": {"max_time": 14, "abs": ["$pa0"]}}
        obs.append({"name": "live/solo-fixed/k=%s" % KN[k], "harness": "sim", "cube": {"spec": spec},
                    "params": [["w0", 0, 2], ["w1", 1, 2], ["s10", 0, 1], ["s11", 0, 1], ["pa0", -1, 2]], "timeout": timeout})
    tasks = [{"w": "$w0", "nf": True, "comp": 0, "fixf": [1]}]
    wps = [{"targets": [0], "cap": 1, "facs": [{"skills": {"0": 1}, "solo": True}, {"skills": {"0": "$f1"}}]}]
    ws = [{"skills": {"0": 1}, "fskills": {"0": 1, "1": 1}}]
    spec = {"tasks": tasks, "edges": [], "teams": [_team(ws, [0])], "wps": wps, "comps": [{"size": 1}], "run": {"max_time": 10}}
    obs.append({"name": "live/solo-facility-fixed", "harness": "sim", "cube": {"spec": spec}, "params": [["w0", 1, 3], ["f1", 0, 1]], "timeout": timeout})
    return obs


def p_ff_join(thorough=False, H=10, timeout=150):
    """A finish-constrained (FF / SF) successor that runs out of work while its predecessor is still being worked on, and a second worker
    for the successor who only becomes available later (two personal absence steps)."""
    obs = []
    for k in (2, 3):
        ws = [{"skills": {"0": 1}}, {"skills": {"1": 1}}, {"skills": {"1": "$s21"}, "abs": ["$a2", "$a2b"]}]
        spec = {"tasks": [{"w": "$w0"}, {"w": "$w1"}], "edges": [[0, 1, k]], "teams": [_team(ws, [0, 1])], "run": {"max_time": H}}
        obs.append({"name": "ffjoin/k=%s" % KN[k], "harness": "sim", "cube": {"spec": spec},
                    "params": [["w0", 1, 5 if thorough else 4], ["w1", 1, 3 if thorough else 2], ["s21", 0, 2], ["a2", -1, 3], ["a2b", -1, 3]], "timeout": timeout})
    return obs


def p_maxtime(thorough=False, timeout=150):
    """C05 (a)/(b): symbolic max_time (including 0 and values below the makespan)."""
    obs = []
    for k in (0, 1, 2, 3):
        for layout in ("private", "shared1"):
            spec = {"tasks": [{"w": "$w0"}, {"w": "$w1"}], "edges": [[0, 1, k]], "teams": layout_workers(layout, 2),
                    "run": {"max_time": "$M", "abs": ["$pa0"]}}
            obs.append({"name": "maxtime/%s/k=%s" % (layout, KN[k]), "harness": "sim_nolive", "cube": {"spec": spec},
                        "params": [["w0", 0, 3], ["w1", 0, 3], ["M", 0, 9 if thorough else 7], ["pa0", -1, 3]], "timeout": timeout})
    return obs


def p_product(kind, thorough=False, H=8, timeout=150, targets="all", absence=False, flag=False, auto_second=False):
    """Component placement.  kind: F1 flat, one task per component; F2 flat, two tasks on component 0;
    N1 one nesting level (component 0 is the parent of component 1); E1 adds a component without task."""
    obs = []
    for links in ("none", "0>1"):
        for wprule in (0, 1):
            for dep in ("indep", "fs"):
                for nwp in (1, 2):
                    if nwp == 1 and links != "none":
                        continue
                    if kind == "F3":
                        # component 0 carries tasks 0 and 2; task 2 waits for task 1 of component 1
                        tasks = [{"w": "$w0", "nf": True, "comp": 0}, {"w": "$w1", "nf": True, "comp": 1}, {"w": "$w2", "nf": True, "comp": 0}]
                        comps = [{"size": "$z0"}, {"size": "$z1"}]
                        edges = [[1, 2, 0]] if dep == "fs" else [[1, 2, 1]]
                        params = [["w0", 1, 2], ["w1", 1, 3], ["w2", 1, 2]]
                    elif kind == "N2":
                        # parent component 0 with two children that carry tasks of their own
                        tasks = [{"w": "$w0", "nf": True, "comp": 1}, {"w": "$w1", "nf": True, "comp": 2}, {"w": "$w2", "nf": True, "comp": 0}]
                        comps = [{"size": "$z0", "children": [1, 2]}, {"size": "$z1"}, {"size": "$z1"}]
                        edges = [[0, 2, 0], [1, 2, 0]] if dep == "fs" else []
                        params = [["w0", 1, 2], ["w1", 1, 2], ["w2", 1, 2]]
                    elif kind in ("F1", "N1", "E1"):
                        tasks = [{"w": "$w0", "nf": True, "comp": 0}, {"w": "$w1", "nf": True, "comp": 1}]
                        comps = [{"size": "$z0"}, {"size": "$z1"}]
                        if kind == "N1":
                            comps[0]["children"] = [1]
                        if kind == "E1":
                            comps.append({"size": 1})
                        edges = [[0, 1, 0]] if dep == "fs" else []
                        params = [["w0", 1, 2], ["w1", 1, 2]]
                    else:
                        tasks = [{"w": "$w0", "nf": True, "comp": 0}, {"w": "$w1", "nf": True, "comp": 0}, {"w": "$w2", "nf": True, "comp": 1}]
                        comps = [{"size": "$z0"}, {"size": "$z1"}]
                        edges = [[0, 2, 0]] if dep == "fs" else []
                        params = [["w0", 1, 2], ["w1", 1, 2], ["w2", 1, 2]]
                    nT = len(tasks)
                    wps = []
                    for pi in range(nwp):
                        if targets == "all" or nwp == 1:
                            tg = list(range(nT))
                        else:
                            # "split": workplace 0 serves every task but the second, workplace 1 only the second;
                            # the facilities themselves are skilled for every task
                            tg = [i for i in range(nT) if i != 1] if pi == 0 else [1]
                        facs = [{"skills": {str(i): ("$fs%d" % pi if i == 0 else 1) for i in range(nT)}}]
                        if nwp == 1:
                            # a single workplace gets a second facility so that two components can be worked on side by side
                            facs.append({"skills": {str(i): 1 for i in range(nT)}})
                        wps.append({"targets": tg, "cap": "$cap%d" % pi, "facs": facs,
                                    "inputs": ([0] if (links == "0>1" and pi == 1) else [])})
                    for t in tasks:
                        t["wps"] = list(range(nwp))
                        t["wprule"] = wprule
                    if targets != "all" and nwp == 1:
                        continue
                    ws = [{"skills": {str(i): 1 for i in range(nT)}, "fskills": {str(f): 1 for f in range(nwp + (1 if nwp == 1 else 0))}} for _ in range(2)]
                    run = {"max_time": H}
                    if absence:
                        run["abs"] = ["$pa0", "$pa1"]
                        run["flag"] = flag
                        params = params + [["pa0", 0, 3], ["pa1", 1, 5]]
                    if auto_second:
                        # the second task becomes an automatic task bound to its component
                        tasks[1] = dict(tasks[1], auto=True, nf=False)
                    spec = {"tasks": tasks, "edges": edges, "teams": [_team(ws, list(range(nT)))], "wps": wps, "comps": comps, "run": run}
                    pr = params + [["z0", 1, 2], ["z1", 1, 2]] + [["cap%d" % pi, 1, 3] for pi in range(nwp)] + [["fs%d" % pi, 0, 2] for pi in range(nwp)]
                    nm = "prod/%s/wps=%d/links=%s/wprule=%d/%s%s" % (kind, nwp, links, wprule, dep, "" if targets == "all" else "/targets=" + targets)
                    if absence:
                        nm += "/abs/flag=%d" % flag
                    if auto_second:
                        nm += "/auto1"
                    ob = {"name": nm, "harness": "sim", "cube": {"spec": spec}, "params": pr, "timeout": timeout}
                    if absence:
                        ob["pre"] = "pa0 < pa1"
                    obs.append(ob)
    return obs


def split_param(obs, name, only_if=None):
    """Case-split every obligation that has the symbolic parameter `name` into one cube per value (parallelism)."""
    out = []
    for ob in obs:
        hit = [q for q in ob["params"] if q[0] == name]
        if not hit or (only_if and not only_if(ob)):
            out.append(ob)
            continue
        _, lo, hi = hit[0]
        for v in range(lo, hi + 1):
            o2 = dict(ob)
            o2["cube"] = dict(ob["cube"], **{name: v})
            o2["params"] = [q for q in ob["params"] if q[0] != name]
            o2["name"] = "%s/%s=%d" % (ob["name"], name, v)
            if ob.get("pre"):
                o2["pre"] = ob["pre"].replace(name, "(%d)" % v) if name in ob["pre"] else ob["pre"]
            out.append(o2)
    return out


def with_history(obs, mode, kmax=4, narrow=None, override=None):
    """The same members, but the observed simulate() follows an earlier call (see simcore.run_sim_history)."""
    out = []
    for ob in obs:
        pr = ob["params"]
        if narrow:
            pr = [[n, max(lo, narrow[n][0]), min(hi, narrow[n][1])] if n in narrow else [n, lo, hi] for n, lo, hi in pr]
        if override:
            pr = [[n, override[n][0], override[n][1]] if n in override else [n, lo, hi] for n, lo, hi in pr]
        out.append(dict(ob, harness="sim_history", name="%s/%s" % (mode, ob["name"]), cube=dict(ob["cube"], mode=mode), params=pr + [["k", 0, kmax]]))
    return out


def obligations_for(prop, tier):
    import os

    obs = _obligations_for(prop, tier)
    eng = os.environ.get("VERIF_ENGINE", "zsym")
    for ob in obs:
        ob.setdefault("engine", eng)
    return obs


def _obligations_for(prop, tier):
    thorough = tier == "thorough"
    if prop == "C01":
        # quick = the small families (with the history members) + the larger families that used to be the thorough tier (1 min on 16 cores);
        # thorough adds four-task workflows over all four kinds, more work and a longer horizon
        obs = wf_cubes(3, ["private"], 2, name="kinds", timeout=150)
        obs += wf_cubes(2, ["shared1", "shared2"], 3, name="kinds", timeout=150)
        obs += p_progress_auto()
        obs += p_absence(kinds=(0, 1, 2, 3), flags=(False, True))
        obs += p_rules(rules=(0, 4, 5))
        obs += p_double_edges(2)
        obs += with_history(wf_cubes(3, ["private"], 2, name="kinds", edge_sets=[[(0, 1), (1, 2)], [(0, 1), (0, 2)]], kinds=(0, 1)), "after-backward", 1)
        obs += p_subproject_edges(2)
        # dependencies added after a first run, with the bulk editing call
        obs += with_history(wf_cubes(3, ["private"], 2, name="kinds", edge_sets=[[(0, 1), (1, 2)], [(0, 2), (1, 2)]], kinds=(0, 1, 2)), "late-edges", 0)
        # tasks listed in the workflow in another order than the dependencies run (finish constraints in a chain)
        for order in ([0, 2, 1], [2, 1, 0]):
            for ob in wf_cubes(3, ["private"], 2, name="kinds-listed-%s" % "".join(map(str, order)), edge_sets=[[(0, 1), (1, 2)]], kinds=(2, 3)) + \
                    wf_cubes(3, ["private"], 2, name="kinds-listed-%s" % "".join(map(str, order)), edge_sets=[[(0, 1), (0, 2)], [(0, 2), (1, 2)]], kinds=(0, 2)):
                obs.append(dict(ob, cube={"spec": dict(ob["cube"]["spec"], tl_order=order)}))
        obs += with_decoy(wf_cubes(3, ["private"], 2, name="kinds", edge_sets=[[(0, 1), (1, 2)]]), (0, 1))
        obs += with_decoy(wf_cubes(3, ["private"], 2, name="kinds", edge_sets=[[(0, 1), (0, 2)]], kinds=(0, 2)), (1,))
        obs += wf_cubes(3, ["private", "shared2"], 3, name="kinds", H=12, timeout=900)
        obs += p_double_edges(3)
        obs += wf_cubes(2, ["shared1", "shared2", "private"], 4, name="kinds", H=12, timeout=600)
        obs += p_progress_auto(wmax=4, H=12, timeout=600)
        obs += p_absence(wmax=3, H=12, timeout=900)
        obs += p_rules(wmax=3, H=12, timeout=600)
        chain = [[(0, 1), (1, 2), (2, 3)], [(0, 1), (0, 2), (1, 3), (2, 3)]]
        obs += wf_cubes(4, ["private"], 2, kinds=(0, 1), edge_sets=chain, H=12, name="kinds4", timeout=900)
        obs += p_subproject_edges(3, H=12, timeout=600)
        obs += with_history(wf_cubes(3, ["private"], 3, name="kinds", edge_sets=[[(0, 1), (1, 2)], [(0, 2), (1, 2)], [(0, 1), (0, 2)]], H=12, timeout=600), "late-edges", 0)
        for order in ([0, 2, 1], [2, 1, 0], [1, 0, 2]):
            for ob in wf_cubes(3, ["private"], 3, name="kinds-listed-%s" % "".join(map(str, order)), edge_sets=[[(0, 1), (1, 2)], [(0, 1), (0, 2)], [(0, 2), (1, 2)]], H=12, timeout=600):
                obs.append(dict(ob, cube={"spec": dict(ob["cube"]["spec"], tl_order=order)}))
        obs += with_decoy(wf_cubes(3, ["private"], 3, name="kinds", edge_sets=[[(0, 1), (1, 2)], [(0, 1), (0, 2)]], H=12, timeout=600), (0, 1))
        obs += with_decoy(wf_cubes(3, ["private"], 3, name="kinds", edge_sets=[[(0, 1), (1, 2)], [(0, 1), (0, 2)]], H=12, timeout=600), (1,))
        if thorough:
            obs += wf_cubes(4, ["private"], 2, kinds=(0, 1, 2, 3), edge_sets=chain, H=14, name="kinds4all", timeout=1500)
            obs += wf_cubes(3, ["private", "shared2"], 4, name="kinds-w4", H=16, timeout=1500)
            obs += with_history(wf_cubes(3, ["private"], 3, name="kinds", edge_sets=[[(0, 1), (1, 2)], [(0, 1), (0, 2)], [(0, 2), (1, 2)]], H=12, timeout=900), "after-backward", 1)
        # a small member that reappears with larger ranges under the same name is subsumed by the later one
        return list({ob["name"]: ob for ob in obs}.values())
    if prop in ("C02", "C03", "C04", "C06"):
        obs = p_contention(thorough, H=12 if thorough else 8, timeout=900 if thorough else 150)
        obs += p_facility(thorough, H=12 if thorough else 8, timeout=900 if thorough else 150)
        if prop == "C03":
            obs += with_history([ob for ob in p_contention(thorough, H=12 if thorough else 8, timeout=900 if thorough else 150) if "/rule=0/" in ob["name"] and "solo=None" in ob["name"] and "fix=None" in ob["name"]], "resume", 3)
            fj = [ob for ob in p_facility(thorough, H=12 if thorough else 8, timeout=900 if thorough else 150) if "fsk=all" in ob["name"] and "fixf=None" in ob["name"]]
            obs += with_history(fj, "json-resume", 4, {"f11": (1, 1), "a1": (-1, -1), "fa0": (-1, 0), "s00": (1, 2), "f00": (1, 2), "w0": (2, 3), "w1": (1, 2), "cap": (1, 2)})
        if prop == "C06":
            pj = [ob for ob in p_product("F1", thorough, H=12 if thorough else 8, timeout=900 if thorough else 150) if "wps=1" in ob["name"] or thorough]
            # enough work for the first run to be cut while the component is still placed
            obs += with_history(pj, "cut+state", 3, {"cap0": (1, 2), "cap1": (1, 2), "fs0": (1, 1), "fs1": (1, 1)}, override={"w0": (3, 5)})
            obs += p_product("N2", thorough, H=12 if thorough else 8, timeout=900 if thorough else 150)
            obs += p_nested_release(thorough, timeout=900 if thorough else 150)
        if prop == "C06":
            # the run follows a complete run on an edited model (a team added afterwards, other skills, other absence steps)
            ed = [ob for ob in p_contention(thorough, H=12 if thorough else 8, timeout=900 if thorough else 150)
                  if "/rule=0/" in ob["name"] and "solo=None" in ob["name"] and "fix=None" in ob["name"] and ("/indep/" in ob["name"] or "/fork/" in ob["name"] or thorough)
                  and ("teams=two" in ob["name"] or thorough)]  # (quick: the three-worker one-team members exceed the per-obligation deadline with a first run in front)
            obs += with_history(ed, "edited-model", 2)
        if prop in ("C06", "C02"):
            obs += p_ff_join(thorough, H=12 if thorough else 10, timeout=900 if thorough else 150)
        if prop == "C06":
            obs += p_auto_in_workplace(thorough, H=12 if thorough else 8, timeout=900 if thorough else 150)
            obs += p_absence(wmax=3 if thorough else 2, H=12 if thorough else 8, timeout=900 if thorough else 200, kinds=(0, 2) if not thorough else (0, 1, 2, 3))
        if prop == "C04":
            obs += p_idclash(thorough, H=12 if thorough else 8, timeout=900 if thorough else 150)
            cu = [ob for ob in p_contention(thorough, H=8, timeout=900 if thorough else 150)
                  if "/rule=0/" in ob["name"] and "fix=None" in ob["name"] and "solo=None" in ob["name"] and ("/indep/" in ob["name"] or thorough)]
            obs += with_unit_time(cu, 2, 24 if thorough else 16, widen=("a0", "a0b", "a2"))
            # two workers of different teams had changed places during an earlier run of the same project
            obs += with_history([ob for ob in cu if "teams=two" in ob["name"]] if not thorough else
                                [ob for ob in p_contention(thorough, H=8, timeout=900) if "/rule=0/" in ob["name"] and "teams=two" in ob["name"] and "solo=None" in ob["name"]], "edited-teams", 0)
            fu = [ob for ob in p_facility(thorough, H=8, timeout=900 if thorough else 150) if "fixf=None" in ob["name"] and "solof=0" in ob["name"] and "fsk=all" in ob["name"]]
            obs += with_unit_time(fu, 2, 24 if thorough else 16, widen=("a1", "fa0"))
        if prop in ("C03", "C04", "C06"):
            obs += p_product("F2", thorough, H=12 if thorough else 8, timeout=900 if thorough else 150, targets="split")
            obs += p_resource_rules(thorough, H=12 if thorough else 8, timeout=900 if thorough else 150)
        if prop == "C02":
            obs += p_progress_auto(wmax=4 if thorough else 3, H=12 if thorough else 8, timeout=600 if thorough else 150)
            obs += p_absence(wmax=3 if thorough else 2, H=12 if thorough else 8, timeout=900 if thorough else 200)
        return obs
    if prop == "C12":
        obs = wf_cubes(3, ["shared2", "private"], 3, kinds=(0,), name="fs", timeout=600 if thorough else 150, H=12)
        obs += with_history(wf_cubes(3, ["shared2"], 2, kinds=(0,), name="fs", timeout=600 if thorough else 150, H=12, edge_sets=[[(0, 1), (0, 2)], [(0, 2)], [(0, 1)]],
                                     extra_task=lambda i: {"due": (0, 2, 1)[i]}), "after-backward-due", 1)
        # PERT values are also kept current at project-wide absence steps (two symbolic steps), and after a plain backward run
        ab = wf_cubes(3, ["shared2"], 2, kinds=(0,), name="fs-abs", timeout=600 if thorough else 150, H=12, edge_sets=[[(0, 1), (1, 2)], [(0, 1), (0, 2)], [(0, 2), (1, 2)]],
                      run_extra={"abs": ["$pa0", "$pa1"]})
        for ob in ab:
            ob["params"] = ob["params"] + [["pa0", 0, 3], ["pa1", 1, 5]]
            ob["pre"] = "pa0 < pa1"
        obs += ab
        obs += with_history(wf_cubes(3, ["shared2"], 2, kinds=(0,), name="fs", timeout=600 if thorough else 150, H=12, edge_sets=[[(0, 1), (0, 2)], [(0, 2), (1, 2)], [(0, 1), (1, 2)]]),
                            "after-backward", 1)
        rev = wf_cubes(3, ["shared2"], 2, kinds=(0,), name="fs-listed-reversed", timeout=600 if thorough else 150, H=12)
        for ob in rev:
            ob["cube"] = {"spec": dict(ob["cube"]["spec"], tl_order=[2, 1, 0])}
        obs += with_history(rev, "json-resume", 2)
        # task 1 is complete from the start (default progress 1)
        obs += wf_cubes(3, ["shared2"], 3, kinds=(0,), name="fs-done1", timeout=600 if thorough else 150, H=12, extra_task=lambda i: ({"g": 2} if i == 1 else {}))
        four = [es for es in all_edge_sets(4)]
        if not thorough:
            four = [es for k, es in enumerate(four) if k % 4 == 1]
        obs += wf_cubes(4, ["shared2"], 2 if not thorough else 3, kinds=(0,), edge_sets=four, name="fs", timeout=900 if thorough else 150, H=14)
        return obs
    if prop == "C13":
        obs = []
        for kind in ("F1", "F2", "N1", "N2", "F3"):
            obs += p_product(kind, thorough, timeout=900 if thorough else 150)
        obs += [ob for ob in p_product("F1", thorough, timeout=900 if thorough else 150, absence=True) if thorough or "wprule=0" in ob["name"]]
        pj = [ob for ob in p_product("F1", thorough, timeout=900 if thorough else 150) if "wprule=0" in ob["name"] or thorough]
        obs += with_history(pj, "json-resume", 3, {"fs0": (1, 1), "fs1": (1, 1), "z0": (1, 2), "z1": (1, 1)})
        obs += [ob for ob in p_facility(thorough, timeout=900 if thorough else 150) if "2wp" in ob["name"] and "fsk=all" in ob["name"]]
        obs += [ob for ob in p_product("F2", thorough, timeout=900 if thorough else 150, auto_second=True) if "wps=2" in ob["name"] and ("wprule=0" in ob["name"] or thorough)]
        obs += p_conveyor(thorough, timeout=900 if thorough else 150)
        return obs
    if prop == "C14":
        obs = []
        for kind in ("F1", "F2", "N1", "E1", "F3"):
            obs += p_product(kind, thorough, timeout=900 if thorough else 150)
        for flag in (False, True):
            obs += [ob for ob in p_product("F2", thorough, timeout=900 if thorough else 150, absence=True, flag=flag, auto_second=True) if thorough or "wprule=0" in ob["name"]]
        return obs
    if prop == "C05":
        obs = p_feasible(thorough, timeout=900 if thorough else 150) + p_maxtime(thorough, timeout=600 if thorough else 150) + p_solo_fixed(thorough, timeout=600 if thorough else 150)
        # a feasible project also completes when the run follows a cut run and only the state is initialised again
        obs += with_history([ob for ob in p_feasible(thorough, timeout=900 if thorough else 150) if "/shared1/" in ob["name"] or "/chainshare/" in ob["name"]], "cut+state", 3,
                            {"a0": (-1, -1), "pa0": (-1, -1), "s0": (1, 2), "s1": (1, 2)})
        # simulate() must return on product/facility models too (owned by C05: "simulate() always returns")
        # (quick-size families in both tiers: with the thorough sizes this group alone exceeded the thorough budget)
        for ob in (p_facility(False, timeout=900 if thorough else 150) + p_contention(False, timeout=900 if thorough else 150)
                   + p_resource_rules(thorough, timeout=900 if thorough else 150) + p_product("N1", False, timeout=900 if thorough else 150)):
            ob = dict(ob)
            ob["harness"] = "sim_nolive"
            obs.append(ob)
        return obs
    if prop == "C07":
        obs = split_param(split_param(p_cost(thorough, timeout=900 if thorough else 150), "pa0"), "a0") + p_facility(thorough, timeout=900 if thorough else 150)[:8]
        obs += with_bare_ids(split_param([ob for ob in p_cost(thorough, timeout=900 if thorough else 150) if "fac=1" in ob["name"]], "pa0"))
        for kind in ("N1", "N2"):
            obs += [ob for ob in p_product(kind, thorough, timeout=900 if thorough else 150) if "wprule=0" in ob["name"] or thorough]
        return obs
    if prop == "C10":
        return [ob for ob in p_contention(thorough, H=12 if thorough else 8, timeout=900 if thorough else 150) if "/rule=0/" in ob["name"] and "solo=None" in ob["name"]] + split_param(p_absence(wmax=3 if thorough else 2, H=12 if thorough else 8, timeout=900 if thorough else 200), "pa0") + split_param(p_cost(thorough, timeout=900 if thorough else 150), "pa0")
    raise KeyError(prop)
