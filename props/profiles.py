"""Profiles: which members of the model family each property explores, per tier (DESIGN §3.1, §4).

A profile function returns a list of obligations (cube = full spec with "$param" placeholders + structural constants,
params = solver variables with ranges).  Structural choices with tiny domains (edge set, dependency kind per edge,
worker layout, rule) are cubes; numbers (work, skills, costs, sizes, absence steps, max_time) are solver variables.
"""
import itertools

ASSUMPTIONS = [
    "unique IDs; task names distinct (skills are keyed by task name); unit_time = 1; error_tol default; task_performed_mode = multi-workers",
    "deterministic skills (standard deviation 0)",
    "numbers are small integers or dyadic rationals k/2 (exact in both IEEE double and the solver's real arithmetic)",
    "a task with need_facility has a target component and at least one allocated workplace",
]
BOUNDS_TEXT = {
    "quick": {"tasks": "<= 3", "work": "0..2 (0..3 in 2-task profiles)", "workers": "<= 3", "horizon max_time": "<= 8"},
    "thorough": {"tasks": "<= 4", "work": "0..3", "workers": "<= 3", "horizon max_time": "<= 12"},
}
OUTSIDE = [
    "sizes/amounts/horizons beyond the bounds", "non-dyadic skills and floating-point accumulation", "random skills (sd != 0)",
    "WORKING_ADDITIONALLY (never set by base code)", "unit_time != 1",
]

KN = {0: "FS", 1: "SS", 2: "FF", 3: "SF"}


def _team(workers, targets):
    return {"targets": targets, "workers": workers}


def layout_workers(layout, T, skill="1"):
    """Worker layouts.  private: one worker per task (parallel execution possible); sharedN: N interchangeable workers."""
    alltasks = list(range(T))
    if layout == "private":
        ws = [{"skills": {str(i): 1}} for i in range(T)]
    elif layout.startswith("shared"):
        n = int(layout[6:])
        ws = [{"skills": {str(i): 1 for i in range(T)}} for _ in range(n)]
    else:
        raise ValueError(layout)
    return [_team(ws, alltasks)]


def all_edge_sets(T):
    pairs = [(i, j) for i in range(T) for j in range(i + 1, T)]
    for bits in itertools.product((0, 1), repeat=len(pairs)):
        yield [pr for pr, b in zip(pairs, bits) if b]


def wf_cubes(T, layouts, wmax, kinds=(0, 1, 2, 3), edge_sets=None, H=8, rule=0, name="wf", timeout=120, extra_task=None, run_extra=None):
    obs = []
    for es in (edge_sets if edge_sets is not None else list(all_edge_sets(T))):
        for ks in itertools.product(kinds, repeat=len(es)):
            for layout in layouts:
                tasks = []
                for i in range(T):
                    t = {"w": "$w%d" % i}
                    if extra_task:
                        t.update(extra_task(i))
                    tasks.append(t)
                spec = {
                    "tasks": tasks,
                    "edges": [[i, j, k] for (i, j), k in zip(es, ks)],
                    "teams": layout_workers(layout, T),
                    "run": dict({"max_time": H, "rule": rule}, **(run_extra or {})),
                }
                nm = "%s/T=%d/%s/edges=%s" % (name, T, layout, ",".join("%d%s%d" % (i, KN[k], j) for (i, j), k in zip(es, ks)) or "-")
                if rule:
                    nm += "/rule=%d" % rule
                obs.append({"name": nm, "harness": "sim", "cube": {"spec": spec}, "params": [["w%d" % i, 0, wmax] for i in range(T)], "timeout": timeout})
    return obs


def p_progress_auto(T=2, wmax=3, H=8, timeout=150):
    """P2: default progress / auto tasks, one edge of every kind."""
    obs = []
    for k in (0, 1, 2, 3):
        for autos in itertools.product((0, 1), repeat=T):
            spec = {
                "tasks": [{"w": "$w%d" % i, "g": "$g%d" % i, "auto": bool(autos[i]), "rate": 1} for i in range(T)],
                "edges": [[0, 1, k]],
                "teams": layout_workers("private", T),
                "run": {"max_time": H},
            }
            obs.append({
                "name": "prog/T=%d/k=%s/auto=%s" % (T, KN[k], "".join(map(str, autos))), "harness": "sim", "cube": {"spec": spec},
                "params": [["w%d" % i, 0, wmax] for i in range(T)] + [["g%d" % i, 0, 2] for i in range(T)], "timeout": timeout,
            })
    return obs


def p_absence(T=2, wmax=2, H=8, timeout=200, kinds=(0, 1, 2, 3), flags=(False, True)):
    """P3: project-wide absence (two symbolic steps), per-worker absence (one symbolic step each), auto flag."""
    obs = []
    for k in kinds:
        for flag in flags:
            for auto1 in (False, True):
                ws = [{"skills": {str(i): 1}, "abs": ["$wa%d" % i]} for i in range(T)]
                spec = {
                    "tasks": [{"w": "$w%d" % i, "auto": (auto1 and i == 1)} for i in range(T)],
                    "edges": [[0, 1, k]],
                    "teams": [_team(ws, list(range(T)))],
                    "run": {"max_time": H, "abs": ["$pa0", "$pa1"], "flag": flag},
                }
                obs.append({
                    "name": "abs/T=%d/k=%s/flag=%d/auto1=%d" % (T, KN[k], flag, auto1), "harness": "sim", "cube": {"spec": spec},
                    "params": [["w%d" % i, 0, wmax] for i in range(T)] + [["wa%d" % i, -1, 3] for i in range(T)] + [["pa0", -1, 4], ["pa1", -1, 4]],
                    "pre": "pa0 <= pa1", "timeout": timeout,
                })
    return obs


def p_rules(wmax=2, H=8, timeout=150, rules=range(9), shapes=None):
    """P4: fork/join shapes under every task priority rule, two shared workers (contention)."""
    shapes = shapes or {"fork": [(0, 1), (0, 2)], "join": [(0, 2), (1, 2)], "indep": []}
    obs = []
    for sname, es in shapes.items():
        for rule in rules:
            spec = {
                "tasks": [{"w": "$w%d" % i} for i in range(3)],
                "edges": [[i, j, 0] for (i, j) in es],
                "teams": layout_workers("shared2", 3),
                "run": {"max_time": H, "rule": rule},
            }
            obs.append({"name": "rules/%s/rule=%d" % (sname, rule), "harness": "sim", "cube": {"spec": spec},
                        "params": [["w%d" % i, 0, wmax] for i in range(3)], "timeout": timeout})
    return obs


def obligations_for(prop, tier):
    import os

    obs = _obligations_for(prop, tier)
    eng = os.environ.get("VERIF_ENGINE", "zsym")
    for ob in obs:
        ob.setdefault("engine", eng)
    return obs


def _obligations_for(prop, tier):
    thorough = tier == "thorough"
    if prop == "C01":
        if not thorough:
            obs = wf_cubes(3, ["private"], 2, name="kinds", timeout=150)
            obs += wf_cubes(2, ["shared1", "shared2"], 3, name="kinds", timeout=150)
            obs += p_progress_auto()
            obs += p_absence(kinds=(0, 1, 2, 3), flags=(False, True))
            obs += p_rules(rules=(0, 4, 5))
        else:
            obs = wf_cubes(3, ["private", "shared2"], 3, name="kinds", H=12, timeout=900)
            obs += wf_cubes(2, ["shared1", "shared2", "private"], 4, name="kinds", H=12, timeout=600)
            obs += p_progress_auto(wmax=4, H=12, timeout=600)
            obs += p_absence(wmax=3, H=12, timeout=900)
            obs += p_rules(wmax=3, H=12, timeout=600)
            chain = [[(0, 1), (1, 2), (2, 3)], [(0, 1), (0, 2), (1, 3), (2, 3)]]
            obs += wf_cubes(4, ["private"], 2, kinds=(0, 1), edge_sets=chain, H=12, name="kinds4", timeout=900)
        return obs
    raise KeyError(prop)
