"""C17 - backward simulation leaves the model intact and respects dependencies (also when aborted by an exception)."""
from engine.sym import exc_tag
from model.family import build, sim_kwargs
from model.observe import Observer, Injected, InjectedBase, dump, concrete_sig
from model.stubs import STUB_NOTES
from props import profiles
from props.histcore import Sim, diff_dumps, short_key, log_lengths
from props.simcore import SIM_FUNCTIONS, WORKING

META = {
    "rule": "one case = one symbolic path through backward_simulate (optionally aborted by an exception injected at a symbolic step and a cube-chosen phase) "
            "followed by a forward simulate and a twin's forward run; non-trivial = the backward run simulated >= 2 steps; distinct by concrete logs + injection point",
    "functions": SIM_FUNCTIONS + ["BaseProject.backward_simulate/reverse_log_information", "BaseWorkflow.reverse_dependencies", "BaseOrganization.reverse_dependencies", "BaseTask.append_input_task"],
    "stubs": STUB_NOTES + ["exception injection: the phase observer raises from BaseProject.__update / add_labor_cost / __record wrappers at (step, phase)"],
    "assumptions": profiles.ASSUMPTIONS,
    "bounds": {"quick": {"tasks": "2-3", "work": "0..2", "due": "0..3", "inject step": "0..4"}, "thorough": {"tasks": "3", "work": "0..3", "due": "0..3", "inject step": "0..6"}},
    "outside": profiles.OUTSIDE + ["exceptions raised at points other than the four observed phases of a step"],
}
REQUIRED_COVERS = {"any": ["aborted-by-exception", "aborted-by-own-exception", "helper-task-used", "success", "fs-order-checked", "forward-after-backward"]}


def structure(M):
    d = {}
    for i, t in enumerate(M.tasks):
        d["t%d.in" % i] = [(id(x), int(k)) for x, k in t.input_task_list]
        d["t%d.out" % i] = [(id(x), int(k)) for x, k in t.output_task_list]
    for i, w in enumerate(M.wps):
        d["wp%d.in" % i] = [id(x) for x in w.input_workplace_list]
        d["wp%d.out" % i] = [id(x) for x in w.output_workplace_list]
    d["task_list"] = [id(t) for t in M.workflow.task_list]
    return d


def backward(p, ctx):
    spec = p["spec"]
    inj = None
    if p["phase"] is not None:
        inj = (p["istep"], p["phase"], p.get("ikind", "exception"))
    with Sim(ctx):
        M = build(spec, p, ctx.symbolic)
        before = structure(M)
        kw = dict(sim_kwargs(M), considering_due_time_of_tail_tasks=bool(p["due"]), reverse_log_information=bool(p["rev"]))
        if p.get("configure_sub"):
            # the sub-project task is configured from the saved result of a small project (read_json_file becomes True)
            from props.jsoncore import JsonIO

            with JsonIO(ctx) as io:
                S = build({"tasks": [{"w": 2}], "teams": profiles.layout_workers("shared1", 1), "run": {"max_time": 5}}, p, ctx.symbolic)
                S.project.simulate(max_time=5)
                sp = io.path("subsrc.json")
                S.project.write_simple_json(sp)
                for t in M.tasks:
                    if type(t).__name__ == "BaseSubProjectTask":
                        t.file_path = sp
                        t.set_all_attributes_from_json()
                        t.set_work_amount_progress_of_unit_step_time(M.project.unit_timedelta)
        obs = Observer(M, inject=inj, want=())
        with obs.installed():
            try:
                ok, r = ctx.call(M.project.backward_simulate, **kw)
            except InjectedBase as e:
                ok, r = False, e
        injected = (not ok) and isinstance(r, (Injected, InjectedBase))
        if not ok and not injected:
            if p.get("may_raise"):
                # a model on which the run legitimately raises by itself (empty workflow): the model must be intact all the same
                ctx.cover("aborted-by-own-exception")
            else:
                ctx.fail("C17:backward-raised:%s" % exc_tag(r))
        if injected:
            ctx.cover("aborted-by-exception")
        after = structure(M)
        for k in before:
            if before[k] != after[k]:
                ctx.fail("C17:structure-changed:%s" % ("task_list" if k == "task_list" else k.split(".")[1] + "-list"))
                ctx.notes.setdefault("structure", "%s: %s -> %s" % (k, len(before[k]), len(after[k])))
        known = set(id(t) for t in M.tasks)
        for t in M.workflow.task_list:
            if id(t) not in known:
                ctx.fail("C17:helper-task-left-in-workflow")
        for t in M.tasks:
            for x, _ in list(t.input_task_list) + list(t.output_task_list):
                if id(x) not in known:
                    ctx.fail("C17:helper-task-left-in-dependency-list")
        if p["due"] and len(set(ctx.c([t.due_time for t in M.tasks if not t.output_task_list]))) > 1:
            ctx.cover("helper-task-used")
        bsig = concrete_sig(M)
        btime = M.project.time
        if ok:
            T = M.project.time
            for k, n in log_lengths(M).items():
                if n != T:
                    ctx.fail("C17:log-length:%s" % short_key(k))
            if int(M.project.status) == 1:
                ctx.cover("success")
                for (a, b, kd) in M.edges:
                    if kd != 0:
                        continue
                    wa = [i for i, s in enumerate(M.tasks[a].state_record_list) if int(s) == WORKING]
                    wb = [i for i, s in enumerate(M.tasks[b].state_record_list) if int(s) == WORKING]
                    if wa and wb:
                        ctx.cover("fs-order-checked")
                        if p["rev"]:
                            if max(wa) >= min(wb):
                                ctx.fail("C17:fs-order-violated-in-reversed-logs")
                        elif max(wb) >= min(wa):
                            ctx.fail("C17:fs-order-violated-in-backward-logs")
        # forward after backward == twin's forward
        okf, rf = ctx.call(M.project.simulate, **sim_kwargs(M))
        Tw = build(spec, p, ctx.symbolic)
        for t, t0 in zip(Tw.tasks, M.tasks):
            if type(t).__name__ == "BaseSubProjectTask":
                t.default_work_amount, t.unit_timedelta = t0.default_work_amount, t0.unit_timedelta
                t.work_amount_progress_of_unit_step_time = t0.work_amount_progress_of_unit_step_time
        okt, rt = ctx.call(Tw.project.simulate, **sim_kwargs(Tw))
        if okf != okt:
            ctx.fail("C17:forward-after-backward-raised")
        elif okf:
            k = diff_dumps(dump(Tw), dump(M))
            if k is not None:
                ctx.fail("C17:forward-after-backward-differs:%s" % short_key(k))
                ctx.notes["differs_at"] = k
            ctx.cover("forward-after-backward")
    ctx.sig = (bsig, bool(ok), p["phase"])
    ctx.nontrivial = ctx.c(btime) >= 2


def obligations(tier, seed):
    thorough = tier == "thorough"
    obs = []
    wmax = 3 if thorough else 2
    members = []
    for k in (0, 1, 2, 3):
        members.append(("chain-%s" % profiles.KN[k], {"tasks": [{"w": "$w0", "due": "$d0"}, {"w": "$w1", "due": "$d1"}, {"w": "$w2", "due": "$d2"}],
                                                        "edges": [[0, 1, 0], [0, 2, k]], "teams": profiles.layout_workers("shared2", 3), "run": {"max_time": 12}},
                        [["w0", 0, wmax], ["w1", 0, wmax], ["w2", 0, wmax], ["d1", 0, 3], ["d2", 0, 3]], {"d0": -1}))
    members.append(("chain-subtask", {"tasks": [{"w": "$w0", "due": "$d0"}, {"w": "$w1", "due": "$d1", "subproject": True}, {"w": "$w2", "due": "$d2"}], "edges": [[0, 1, 0], [1, 2, 0]],
                                      "teams": profiles.layout_workers("shared2", 3), "run": {"max_time": 12}},
                    [["w0", 1, 3], ["w1", 1, 3], ["w2", 1, 2]], {"d0": -1, "d1": -1, "d2": -1}))
    members.append(("chain-subtask-json", {"tasks": [{"w": "$w0", "due": "$d0"}, {"w": 1, "due": "$d1", "subproject": True}, {"w": "$w2", "due": "$d2"}], "edges": [[0, 1, 0], [1, 2, 0]],
                                           "teams": profiles.layout_workers("shared2", 3), "run": {"max_time": 12}},
                    [["w0", 2, 4], ["w2", 1, 2]], {"d0": -1, "d1": -1, "d2": -1, "configure_sub": True}))
    members.append(("fan", {"tasks": [{"w": "$w0", "due": "$d0"}, {"w": "$w1", "due": "$d1"}, {"w": "$w2", "due": "$d2"}, {"w": 1, "due": "$d3"}],
                            "edges": [[0, 1, 0], [0, 2, 0], [0, 3, 0]], "teams": profiles.layout_workers("shared2", 4), "run": {"max_time": 14}},
                    [["w0", 1, 2], ["w1", 1, 2], ["w2", 1, 2], ["d1", 0, 2], ["d2", 0, 2], ["d3", 0, 2]], {"d0": -1}))
    # a worker with personal absence steps (a parameter of the model that a backward run must leave alone)
    members.append(("chain-workerabs", {"tasks": [{"w": "$w0", "due": "$d0"}, {"w": "$w1", "due": "$d1"}, {"w": "$w2", "due": "$d2"}], "edges": [[0, 1, 0], [0, 2, 0]],
                                        "teams": [{"targets": [0, 1, 2], "workers": [{"skills": {"0": 1, "1": 1, "2": 1}, "abs": ["$a0", "$a1"]}, {"skills": {"0": 1, "1": 1, "2": 1}}]}],
                                        "run": {"max_time": 12}},
                    [["w0", 1, 2], ["w1", 1, 2], ["w2", 1, 2], ["a0", 0, 2], ["a1", 1, 4]], {"d0": -1, "d1": 0, "d2": 1}))
    members.append(("join", {"tasks": [{"w": "$w0", "due": "$d0"}, {"w": "$w1", "due": "$d1"}, {"w": "$w2", "due": "$d2"}],
                             "edges": [[0, 2, 0], [1, 2, 0]], "teams": profiles.layout_workers("private", 3), "run": {"max_time": 12}},
                    [["w0", 0, wmax], ["w1", 0, wmax], ["w2", 0, wmax], ["d2", 0, 3]], {"d0": -1, "d1": -1}))
    fac = [ob for ob in profiles.p_product("F1", thorough) if "wps=2/links=0>1/wprule=0/fs" in ob["name"]][0]
    members.append(("prod-links", fac["cube"]["spec"], [[n, max(lo, 1), min(hi, 2)] for n, lo, hi in fac["params"] if n not in ("z1", "fs1")], {"z1": 1, "fs1": 1}))
    fa = [ob for ob in profiles.p_facility(thorough) if "1wp2f/fsk=all/solof=0/fixf=None/mixed=0" in ob["name"]][0]
    members.append(("facility-absence", fa["cube"]["spec"], [["w0", 2, 4], ["fa0", 0, 3]], {"w1": 1, "s00": 1, "f00": 1, "f11": 1, "cap": 2, "a1": -1}))
    # no task at all (the run raises by itself), workplaces linked by a conveyor relation
    members.append(("empty-wf-links", {"tasks": [], "edges": [], "teams": [{"targets": [], "workers": [{"skills": {}}]}],
                                       "wps": [{"targets": [], "cap": 1, "facs": [{"skills": {}}]}, {"targets": [], "cap": "$cap1", "facs": [], "inputs": [0]}],
                                       "comps": [{"size": 1}], "run": {"max_time": 4}}, [["cap1", 1, 2]], {"may_raise": True}))
    # two tail tasks that carry the same name (skills are keyed by name, so this is how "the same kind of work" is modelled)
    members.append(("same-name-tails", {"tasks": [{"w": "$w0", "due": "$d0"}, {"w": "$w1", "due": "$d1", "name": "TX"}, {"w": "$w2", "due": "$d2", "name": "TX"}, {"w": 1, "due": 4}],
                                        "edges": [[0, 1, 0], [0, 2, 0]],
                                        "teams": [{"targets": [0, 1, 2, 3], "workers": [{"skills": {"0": 1, "X": 1, "3": 1}}, {"skills": {"0": 1, "X": 1, "3": 1}}]}], "run": {"max_time": 14}},
                    [["w0", 1, 2], ["w1", 1, 2], ["w2", 1, 2], ["d1", 0, 3], ["d2", 0, 3]], {"d0": -1}))
    for mname, spec, params, consts in members:
        for due in (0, 1):
            for rev in (0, 1):
                for phase in (None, "updated", "allocated", "performed", "recorded", "updated!"):
                    if mname in ("prod-links", "facility-absence") and due == 1:
                        continue
                    if mname in ("facility-absence", "same-name-tails") and phase not in (None, "performed"):
                        continue
                    if mname == "empty-wf-links" and phase is not None:
                        continue
                    ikind = "exception"
                    if phase == "updated!":
                        # the same injection point, but with an exception that is not derived from Exception
                        if mname not in ("chain-FS", "join"):
                            continue
                        phase, ikind = "updated", "base"
                    cube = dict(consts, spec=spec, due=due, rev=rev, phase=phase, ikind=ikind)
                    pr = list(params) + ([["istep", 0, 6 if thorough else 4]] if phase else [])
                    if not phase:
                        cube["istep"] = -1
                    obs.append({"name": "bwd/%s/due=%d/rev=%d/inject=%s%s" % (mname, due, rev, phase, "!" if ikind == "base" else ""), "harness": "backward", "cube": cube, "params": pr,
                                "timeout": 900 if thorough else 150, "engine": "zsym"})
    return obs
