"""C07 - oracle over observed simulate() runs (see props/oracles.py:c07)."""
from props.simcore import run_sim, SIM_FUNCTIONS
from props import profiles, oracles
from model.stubs import STUB_NOTES

META = {
    "rule": "one case = one symbolic path of simulate() on a family member (a class of work amounts/skills/costs/absence steps with the same schedule); "
            "non-trivial by the oracle's own rule (work allocated / >= 2 steps); distinct by the concrete state and allocation logs",
    "functions": SIM_FUNCTIONS,
    "stubs": STUB_NOTES,
    "assumptions": profiles.ASSUMPTIONS,
    "bounds": profiles.BOUNDS_TEXT,
    "outside": profiles.OUTSIDE,
}

REQUIRED_COVERS = {"any": profiles.REQUIRED["C07"]}

CROSSCHECK = {"thorough": 8}


def sim(p, ctx):
    M = run_sim(p, ctx)
    oracles.c07(M, ctx)


def obligations(tier, seed):
    return profiles.obligations_for("C07", tier)


def resume(p, ctx):
    """Cost accounting over a paused and resumed run (simulate(max_time=k), then resume with the initialisation flags off)."""
    from model.family import build, sim_kwargs
    from model.observe import concrete_sig
    from props.histcore import Sim

    with Sim(ctx):
        M = build(p["spec"], p, ctx.symbolic)
        kw = sim_kwargs(M)
        ok1, r = ctx.call(M.project.simulate, **dict(kw, max_time=p["k"]))
        ok2, r = ctx.call(M.project.simulate, **dict(kw, initialize_state_info=False, initialize_log_info=False))
        if ok1 and ok2:
            oracles.c07(M, ctx)
            if 0 < p["k"] < M.project.time:
                ctx.cover("resumed-inside-run")
        else:
            ctx.aborted = "raised"
    ctx.sig = (concrete_sig(M), ctx.c(p["k"]))


def sim_then_remove(p, ctx):
    """Cost accounting after the absence steps (given in any order) have been removed again."""
    M = run_sim(p, ctx)
    if M.exc is not None:
        return
    ok, r = ctx.call(M.project.remove_absence_time_list)
    if not ok:
        ctx.aborted = "remove raised"
        return
    M.run = dict(M.run, abs=[])  # no absence step is left in the logs
    oracles.c07(M, ctx)
    ctx.cover("after-remove")


_sim_obligations = obligations
REQUIRED_COVERS = {"any": profiles.REQUIRED["C07"] + ["resumed-inside-run", "after-remove"]}


def obligations(tier, seed):
    obs = _sim_obligations(tier, seed)
    thorough = tier == "thorough"
    for ob in profiles.p_cost(thorough, timeout=900 if thorough else 150):
        narrow = {"c0": (1, 2), "c1": (0, 1), "a0": (-1, 1), "pa1": (9, 9), "cf": (1, 2), "fa0": (-1, -1), "w0": (1, 3), "w1": (1, 2)}
        o2 = dict(ob, harness="resume", name="resume/" + ob["name"], engine="zsym")
        o2["params"] = [[n, max(lo, narrow[n][0]) if n in narrow and narrow[n][0] <= hi else lo, min(hi, narrow[n][1]) if n in narrow and narrow[n][0] <= hi else hi] for n, lo, hi in ob["params"]]
        o2["params"] = [[n, lo, hi] if n != "pa1" else [n, 3, 3] for n, lo, hi in o2["params"]] + [["k", 0, 6]]
        obs.append(o2)
    for ob in profiles.p_cost(thorough, timeout=900 if thorough else 150):
        # (with and without a workplace: every container edits its own cost list; the list is given in either order)
        pr = [[n, lo, hi] if n not in ("pa0", "pa1") else [n, 0, 4] for n, lo, hi in ob["params"]]
        pr = [[n, lo, min(hi, 2)] if n in ("c0", "c1", "w0", "w1") else [n, lo, hi] for n, lo, hi in pr]
        if "fac=0" not in ob["name"]:
            fixed = {"cf": (1, 2), "fa0": (-1, -1), "a0": (-1, 0), "c1": (0, 1)}
            pr = [[n, fixed[n][0], fixed[n][1]] if n in fixed else [n, lo, hi] for n, lo, hi in pr]
        obs.append(dict(ob, harness="sim_then_remove", name="remove/" + ob["name"], params=pr, pre="pa0 != pa1", engine="zsym"))
    # unit_time = 2: the clock advances by two per step, the logs still have one entry per step
    for ob in profiles.p_cost(thorough, timeout=900 if thorough else 150):
        if "fac=0" not in ob["name"]:
            continue
        spec = dict(ob["cube"]["spec"])
        spec["run"] = dict(spec["run"], unit_time=2, max_time=16)
        obs.append(dict(ob, name="unit2/" + ob["name"], cube={"spec": spec}, engine="zsym",
                        params=[[n, lo, min(hi, 2)] if n in ("c0", "c1", "w0", "w1") else [n, lo, hi] for n, lo, hi in ob["params"]]))
    return profiles.split_param(obs, "k")
