"""C09 - simulation results are reproducible and independent of object identity.

zsym runs the real code natively, so pDESy's internal sets are real CPython sets; the task class of the model
family carries a harness-controlled hash, which is exactly the degree of freedom object addresses give.  The
iteration order therefore is a cube constant (a permutation of hash priorities), everything numeric is symbolic.
"""
import itertools

from engine.sym import exc_tag
from engine import chconf
from model.family import build, sim_kwargs
from model.observe import dump, concrete_sig
from model.stubs import STUB_NOTES
from props import profiles
from props.histcore import Sim, diff_dumps, short_key
from props.simcore import SIM_FUNCTIONS

META = {
    "rule": "one case = one symbolic path through two or three complete simulate() runs of the same member (reference order vs permuted set "
            "iteration order / repeated call / fresh twin / after other API calls); non-trivial = >= 2 steps and a dependency edge; distinct by concrete logs",
    "functions": SIM_FUNCTIONS + ["BaseProject.insert_absence_time_list / remove_absence_time_list (hidden-state clause)"],
    "stubs": STUB_NOTES + ["task objects with harness-controlled __hash__ (subclass in the harness, no change to pDESy): real set iteration order = chosen permutation"],
    "assumptions": profiles.ASSUMPTIONS + ["'fresh process / other addresses' act only through the iteration order of sets of task objects (AST scan of pDESy/model on every run: scan_unordered)"],
    "bounds": profiles.BOUNDS_TEXT,
    "outside": profiles.OUTSIDE + ["PYTHONHASHSEED (affects str hashes only; the scan reports any set/dict of strings iterated on the simulation path)"],
}
REQUIRED_COVERS = {"any": ["order:permuted", "order:same-step-zero-ff", "repeat", "hidden:after-insert", "scan:ok", "after-cut:inside", "hidden:backward-after-forward"]}


def scan_unordered():
    """AST scan of /repo/pDESy/model: every construct whose iteration order is not fixed by the program."""
    import ast
    import glob

    found = []
    for fn in sorted(glob.glob(chconf.REPO + "/pDESy/model/*.py")):
        tree = ast.parse(open(fn).read())
        # sets the harness controls: sets of task / component objects (their __hash__ is fixed by the harness), recognised as a
        # set(...) call that is directly assigned to a variable named after tasks or components; any other set is reported as such
        controlled = set()
        for node in ast.walk(tree):
            if isinstance(node, ast.Assign) and isinstance(node.value, ast.Call) and isinstance(node.value.func, ast.Name) and node.value.func.id == "set":
                names = [t.id for t in node.targets if isinstance(t, ast.Name)]
                if names and all(("task" in n or "component" in n) for n in names):
                    controlled.add(id(node.value))
        for node in ast.walk(tree):
            kind = None
            if isinstance(node, ast.Call) and isinstance(node.func, ast.Name) and node.func.id in ("set", "frozenset", "id", "hash"):
                kind = node.func.id + "()"
                if node.func.id == "set" and id(node) not in controlled:
                    kind = "set-of-other-objects"
            elif isinstance(node, (ast.Set, ast.SetComp)):
                kind = "set-display"
            elif isinstance(node, ast.FunctionDef) and node.name == "__hash__":
                kind = "__hash__"
            elif isinstance(node, ast.Call) and isinstance(node.func, ast.Attribute) and node.func.attr in ("intersection", "union", "difference", "symmetric_difference"):
                kind = "set-algebra"
            elif isinstance(node, ast.BinOp) and isinstance(node.op, (ast.BitAnd, ast.BitOr, ast.BitXor)) and any(
                    isinstance(x, ast.Call) and isinstance(x.func, ast.Attribute) and x.func.attr in ("keys", "items") for x in (node.left, node.right)):
                kind = "set-algebra"
            if kind:
                found.append("%s:%d:%s" % (fn.rsplit("/", 1)[-1], node.lineno, kind))
    return found


def _run(M, ctx, **over):
    kw = sim_kwargs(M)
    kw.update(over)
    ok, r = ctx.call(M.project.simulate, **kw)
    return ok, r


def order(p, ctx):
    """dump(run under set order `perm`) == dump(run under index order); repeated simulate; fresh twin."""
    spec = p["spec"]
    perm = p["perm"]
    with Sim(ctx):
        M1 = build(spec, p, ctx.symbolic)
        ok1, r1 = _run(M1, ctx)
        d1 = dump(M1)
        M2 = build(spec, p, ctx.symbolic, hprio=perm, hprio_comp=list(reversed(range(len(spec.get("comps", []))))))
        ok2, r2 = _run(M2, ctx)
        d2 = dump(M2)
        if ok1 != ok2:
            ctx.fail("C09:order:exception-depends-on-order")
        k = diff_dumps(d1, d2)
        if k is not None:
            ctx.fail("C09:order:%s" % short_key(k))
            ctx.notes["differs_at"] = k
        if list(perm) != sorted(perm):
            ctx.cover("order:permuted")
        # repeated call on the same object
        ok3, r3 = _run(M1, ctx)
        d3 = dump(M1)
        k = diff_dumps(d1, d3)
        if k is not None:
            ctx.fail("C09:repeat:%s" % short_key(k))
            ctx.notes["repeat_differs_at"] = k
        ctx.cover("repeat")
        # FF pairs that reach zero in the same step (the situation in which visiting order matters)
        for (a, b, kd) in M1.edges:
            if kd == 2:
                ra, rb = M1.tasks[a].remaining_work_amount_record_list, M1.tasks[b].remaining_work_amount_record_list
                for t in range(1, min(len(ra), len(rb))):
                    if ra[t] < 1e-10 and rb[t] < 1e-10 and not ra[t - 1] < 1e-10 and not rb[t - 1] < 1e-10:
                        ctx.cover("order:same-step-zero-ff")
    ctx.sig = concrete_sig(M1)
    ctx.nontrivial = M1.project.time >= 2 and len(M1.edges) >= 1


def hidden(p, ctx):
    """Running a simulation (and editing its result) leaves nothing behind that changes a later default-argument run."""
    spec = p["spec"]
    with Sim(ctx):
        Mref = build(spec, p, ctx.symbolic)
        ok, r = ctx.call(Mref.project.simulate, max_time=Mref.run["max_time"])
        dref = dump(Mref)
        M1 = build(spec, p, ctx.symbolic)
        ctx.call(M1.project.simulate, max_time=M1.run["max_time"])
        if p["op"] == "insert":
            ok, r = ctx.call(M1.project.insert_absence_time_list, [p["i0"]])
            ctx.cover("hidden:after-insert")
        elif p["op"] == "insert-remove":
            ctx.call(M1.project.insert_absence_time_list, [p["i0"]])
            ctx.call(M1.project.remove_absence_time_list)
        elif p["op"] == "backward":
            ctx.call(M1.project.backward_simulate, max_time=M1.run["max_time"])
            ctx.call(M1.project.insert_absence_time_list, [p["i0"]])
        elif p["op"] == "forward-then-backward":
            # a backward run on a project that was simulated forward before equals a backward run on a fresh twin
            okb, rb = ctx.call(M1.project.backward_simulate, max_time=M1.run["max_time"])
            Mb = build(spec, p, ctx.symbolic)
            okf, rf = ctx.call(Mb.project.backward_simulate, max_time=Mb.run["max_time"])
            kb = diff_dumps(dump(Mb), dump(M1))
            if okb != okf or kb is not None:
                ctx.fail("C09:hidden-state:backward-after-forward-differs:%s" % (short_key(kb) if kb else "raised"))
                ctx.notes["bwd_differs_at"] = kb
            ctx.cover("hidden:backward-after-forward")
        M2 = build(spec, p, ctx.symbolic)
        ok, r = ctx.call(M2.project.simulate, max_time=M2.run["max_time"])
        d2 = dump(M2)
        k = diff_dumps(dref, d2)
        if k is not None:
            ctx.fail("C09:hidden-state:later-default-run-differs:%s" % short_key(k))
            ctx.notes["differs_at"] = k
        if list(M2.project.absence_time_list) != []:
            ctx.fail("C09:hidden-state:default-absence-list-not-empty")
    ctx.sig = concrete_sig(M2)
    ctx.nontrivial = M2.project.time >= 2


def after_cut(p, ctx):
    """A complete simulate() after a run that was cut short by max_time equals a fresh complete run."""
    spec = p["spec"]
    with Sim(ctx):
        A = build(spec, p, ctx.symbolic)
        ok1, r = ctx.call(A.project.simulate, **dict(sim_kwargs(A), max_time=p["k"]))
        ok2, r = _run(A, ctx)
        B = build(spec, p, ctx.symbolic)
        ok3, r = _run(B, ctx)
        if ok1 and ok2 and ok3:
            kdiff = diff_dumps(dump(B), dump(A))
            if kdiff is not None:
                ctx.fail("C09:after-cut-run:%s" % short_key(kdiff))
                ctx.notes["differs_at"] = kdiff
            if 0 < p["k"] < B.project.time:
                ctx.cover("after-cut:inside")
    ctx.sig = (concrete_sig(B), ctx.c(p["k"]))
    ctx.nontrivial = True


def scan(p, ctx):
    """Every unordered construct in pDESy/model is one the harness controls (set(...) of task/component objects)."""
    found = scan_unordered()
    ctx.notes["unordered_constructs"] = found
    allowed_files = ("base_workflow.py", "base_product.py", "base_project.py")
    for f in found:
        fn, line, kind = f.split(":")
        if kind in ("set-display", "__hash__", "id()", "hash()", "set-algebra", "set-of-other-objects") or fn not in allowed_files:
            ctx.fail("C09:scan:uncontrolled-unordered-construct:%s:%s" % (fn, kind))
    ctx.cover("scan:ok")
    ctx.sig = ("scan", len(found))
    ctx.nontrivial = True
    if p["x"] > 5:
        ctx.fail("unreachable")


def obligations(tier, seed):
    thorough = tier == "thorough"
    obs = [{"name": "scan", "harness": "scan", "cube": {}, "params": [["x", 0, 1]], "timeout": 60, "engine": "zsym"}]
    T = 3
    wmax = 3 if thorough else 2
    perms = [pm for pm in itertools.permutations(range(T)) if list(pm) != list(range(T))]
    if not thorough:
        perms = [(2, 1, 0), (1, 0, 2), (0, 2, 1)]
    for es in profiles.all_edge_sets(T):
        if not es:
            continue
        for ks in itertools.product((0, 1, 2, 3), repeat=len(es)):
            if not thorough and len(es) == 3 and len(set(ks)) > 2:
                continue
            for layout in (("private", "shared1") if not thorough else ("private", "shared1", "shared2")):
                spec = {"tasks": [{"w": "$w%d" % i} for i in range(T)], "edges": [[i, j, k] for (i, j), k in zip(es, ks)],
                        "teams": profiles.layout_workers(layout, T), "run": {"max_time": 10 if not thorough else 14}}
                for pm in perms:
                    obs.append({"name": "order/%s/edges=%s/perm=%s" % (layout, ",".join("%d%s%d" % (i, profiles.KN[k], j) for (i, j), k in zip(es, ks)), "".join(map(str, pm))),
                                "harness": "order", "cube": {"spec": spec, "perm": list(pm)}, "params": [["w%d" % i, 0, wmax] for i in range(T)],
                                "timeout": 600 if thorough else 120, "engine": "zsym"})
    # every task priority rule under contention (one or two shared workers): the repeated call must not see what the first one left
    # behind (rules read logs and PERT values of the task objects), and the set order must not matter
    for rule in range(1, 9):
        for es, ks in (([(0, 1), (0, 2)], (0, 0)), ([(0, 1), (0, 2)], (1, 0)), ([(0, 2), (1, 2)], (0, 0))):
            for layout in (("shared1",) if not thorough else ("shared1", "shared2")):
                spec = {"tasks": [{"w": "$w%d" % i} for i in range(T)], "edges": [[i, j, k] for (i, j), k in zip(es, ks)],
                        "teams": profiles.layout_workers(layout, T), "run": {"max_time": 12 if not thorough else 16, "rule": rule}}
                obs.append({"name": "order/rule=%d/%s/edges=%s/perm=210" % (rule, layout, ",".join("%d%s%d" % (i, profiles.KN[k], j) for (i, j), k in zip(es, ks))),
                            "harness": "order", "cube": {"spec": spec, "perm": [2, 1, 0]}, "params": [["w%d" % i, 0, wmax] for i in range(T)],
                            "timeout": 600 if thorough else 120, "engine": "zsym"})
    # product members (components whose tasks wait for predecessors): repeated simulate and permuted component/task order
    for kind in ("F1", "F2", "N1"):
        for ob in profiles.p_product(kind, thorough, H=10):
            if "/fs" not in ob["name"]:
                continue
            nT = len(ob["cube"]["spec"]["tasks"])
            pms = [list(reversed(range(nT)))] if not thorough else [list(reversed(range(nT))), list(range(1, nT)) + [0]]
            for pm in [pm for k, pm in enumerate(pms) if pm not in pms[:k]]:
                narrow = {"cap0": (1, 2), "cap1": (1, 2), "fs0": (1, 2), "fs1": (1, 1), "z1": (1, 1)}
                pr = [[n, max(lo, narrow[n][0]), min(hi, narrow[n][1])] if n in narrow else [n, lo, hi] for n, lo, hi in ob["params"]]
                obs.append({"name": "order/" + ob["name"] + "/perm=" + "".join(map(str, pm)), "harness": "order", "cube": {"spec": ob["cube"]["spec"], "perm": pm},
                            "params": pr, "timeout": 600 if thorough else 120, "engine": "zsym"})
    # an automatic task bound to a component next to an ordinary task of the same component (both may become READY in the same step)
    for ob in profiles.p_product("F2", thorough, H=10, auto_second=True):
        if "wprule=0" not in ob["name"] and not thorough:
            continue
        nT = len(ob["cube"]["spec"]["tasks"])
        narrow = {"cap0": (1, 2), "cap1": (1, 2), "fs0": (1, 2), "fs1": (1, 1), "z1": (1, 1)}
        pr = [[n, max(lo, narrow[n][0]), min(hi, narrow[n][1])] if n in narrow else [n, lo, hi] for n, lo, hi in ob["params"]]
        obs.append({"name": "order/" + ob["name"] + "/perm=" + "".join(map(str, reversed(range(nT)))), "harness": "order",
                    "cube": {"spec": ob["cube"]["spec"], "perm": list(reversed(range(nT)))}, "params": pr, "timeout": 600 if thorough else 120, "engine": "zsym"})
    for kind in ("F1", "F2", "N2"):
        for ob in profiles.p_product(kind, thorough, H=10):
            if "wprule=0" not in ob["name"] or ("/fs" in ob["name"] and not thorough):
                continue
            narrow = {"cap0": (2, 3), "cap1": (1, 2), "fs0": (1, 1), "fs1": (1, 1), "z1": (1, 1), "z0": (1, 1)}
            pr = [[n, max(lo, narrow[n][0]), min(hi, narrow[n][1])] if n in narrow else [n, lo, hi] for n, lo, hi in ob["params"]] + [["k", 0, 5]]
            obs.append({"name": "aftercut/" + ob["name"], "harness": "after_cut", "cube": {"spec": ob["cube"]["spec"]}, "params": pr,
                        "timeout": 600 if thorough else 120, "engine": "zsym"})
    for k in (0, 2):
        spec = {"tasks": [{"w": "$w0"}, {"w": "$w1"}, {"w": "$w2"}, {"w": 1}], "edges": [[0, 1, k], [0, 2, 0], [1, 3, 0], [2, 3, 0]],
                "teams": profiles.layout_workers("shared1", 4), "run": {"max_time": 14}}
        obs.append({"name": "hidden/forward-then-backward/k=%s" % profiles.KN[k], "harness": "hidden", "cube": {"spec": spec, "op": "forward-then-backward", "i0": 0},
                    "params": [["w0", 1, 2], ["w1", 1, 3], ["w2", 1, 3]], "timeout": 600 if thorough else 120, "engine": "zsym"})
    for op in ("insert", "insert-remove", "backward"):
        for k in (0, 2):
            spec = {"tasks": [{"w": "$w0"}, {"w": "$w1"}], "edges": [[0, 1, k]], "teams": profiles.layout_workers("private", 2), "run": {"max_time": 10}}
            obs.append({"name": "hidden/%s/k=%s" % (op, profiles.KN[k]), "harness": "hidden", "cube": {"spec": spec, "op": op},
                        "params": [["w0", 0, 3], ["w1", 0, 3], ["i0", 0, 4]], "timeout": 600 if thorough else 120, "engine": "zsym"})
    return obs
