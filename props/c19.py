"""C19 - Gantt data, state queries and dates report exactly what the logs contain.

Unit obligations over *arbitrary* state logs (the property is stated for all state sequences, not only
those a simulation can produce), so the log entries are symbolic integers constrained to the state codes
the base simulator writes; the finish margin is a symbolic dyadic q/2; time lists and unit lengths are symbolic.
"""
import datetime

from engine.sym import exc_tag

META = {
    "rule": "one case = one symbolic path through the encoder/query under test (a class of state logs x margins x time lists); "
            "non-trivial = the log contains at least one state change; distinct = distinct (kind, concrete path signature)",
    "functions": [
        "BaseTask.get_time_list_for_gannt_chart", "BaseComponent.get_time_list_for_gannt_chart",
        "BaseWorker.get_time_list_for_gannt_chart", "BaseFacility.get_time_list_for_gannt_chart",
        "BaseTask/BaseComponent/BaseWorker/BaseFacility.create_data_for_gantt_plotly (rows)",
        "BaseWorkflow.extract_{none,ready,working,finished}_task_list", "BaseProduct.extract_*_component_list",
        "BaseTeam.extract_{free,working}_worker_list", "BaseWorkplace.extract_{free,working}_facility_list",
        "BaseProject.set_last_datetime",
    ],
    "stubs": ["none (pure functions of logs); datetime arithmetic is executed by CrossHair's symbolic datetime model and re-checked on replay with the C datetime"],
    "assumptions": [
        "log entries are the state codes written by the base simulator (task/component NONE,READY,WORKING,FINISHED; worker/facility FREE,WORKING,ABSENCE)",
        "finish margin is a non-negative dyadic rational q/2",
        "requested times are >= 0 (negative indices have Python wrap-around semantics and are outside the claim)",
    ],
    "bounds": {
        "quick": {"log_length": "0..5 (task/component), 0..5 (worker/facility)", "margin": "q/2, q in 0..4", "extract": "2 objects, logs <=3, <=2 requested times in 0..4", "unit_minutes": "1..3"},
        "thorough": {"log_length": "0..7", "margin": "q/2, q in 0..6", "extract": "3 objects, logs <=3, <=3 requested times", "unit_minutes": "1..4"},
    },
    "outside": ["WORKING_ADDITIONALLY / REMOVED entries (never written by base code)", "plotting back ends", "negative time indices", "log lengths beyond the bound"],
}

REQUIRED_COVERS = {"any": ["gantt:task:multi-run", "gantt:worker:absence-run", "extract:partial", "extract:out-of-range", "extract:absence-list-unrelated-to-log", "rows:ready", "lastdate", "lastdate:after-insert"]}

KINDS = {
    "task": (-1, 2),
    "component": (-1, 2),
    "worker": (-1, 1),
    "facility": (-1, 1),
}


def _mk(kind, seq, symbolic, as_int=False):
    from pDESy.model.base_task import BaseTask, BaseTaskState
    from pDESy.model.base_component import BaseComponent, BaseComponentState
    from pDESy.model.base_worker import BaseWorker, BaseWorkerState
    from pDESy.model.base_facility import BaseFacility, BaseFacilityState

    if kind == "subtask":
        # a sub-project task that is linked to a result file and carries its own unit length: charts use the caller's unit all the same
        from pDESy.model.base_subproject_task import BaseSubProjectTask

        o = BaseSubProjectTask(file_path="sub.json", name="x", ID="x")
        o.read_json_file = True
        o.unit_timedelta = datetime.timedelta(days=3)
        o.state_record_list = list(seq) if symbolic else ([int(s) for s in seq] if as_int else [BaseTaskState(int(s)) for s in seq])
        return o
    cls, enum = {
        "task": (BaseTask, BaseTaskState),
        "component": (BaseComponent, BaseComponentState),
        "worker": (BaseWorker, BaseWorkerState),
        "facility": (BaseFacility, BaseFacilityState),
    }[kind]
    o = cls("x", ID="x")
    # symbolic run: entries stay solver variables (IntEnum members compare equal to ints);
    # replay: real enum members
    # symbolic run: entries stay solver variables (IntEnum members compare equal to ints);
    # replay: real enum members, or plain ints (as_int) - a log may hold either, equality is what the property is about
    o.state_record_list = list(seq) if symbolic else ([int(s) for s in seq] if as_int else [enum(int(s)) for s in seq])
    return o


def _runs(seq, code):
    """Maximal runs of `code` in seq: list of (start, length-1)."""
    out = []
    i = 0
    n = len(seq)
    while i < n:
        j = i
        while j + 1 < n and seq[j + 1] == seq[i]:
            j += 1
        if seq[i] == code:
            out.append((i, j - i))
        i = j + 1
    return out


def _eq_runs(got, exp, m):
    if len(got) != len(exp):
        return False
    for (gs, gl), (es, el) in zip(got, exp):
        if gs != es or gl != el + m:
            return False
    return True


def _both_representations(core):
    """Symbolic run: entries are solver ints.  Replay: once with enum members, once with plain ints."""
    def run(p, ctx):
        if ctx.symbolic:
            return core(p, ctx, False)
        core(p, ctx, False)
        sig, nt = ctx.sig, ctx.nontrivial
        core(p, ctx, True)
        ctx.sig, ctx.nontrivial = sig, nt
    run.__name__ = core.__name__
    return run


def _gantt(p, ctx, as_int):
    kind = p["kind"]
    n = p["n"]
    seq = list(p.get("prefix", [])) + [p["s%d" % i] for i in range(len(p.get("prefix", [])), n)]
    m = p["q"] / 2
    o = _mk(kind, seq, ctx.symbolic, as_int=as_int)
    ok, r = ctx.call(o.get_time_list_for_gannt_chart, finish_margin=m)
    if not ok:
        ctx.fail("gantt:%s:raises:%s" % (kind, exc_tag(r)))
        return
    if kind in ("task", "component"):
        ready, working = r
        e_ready, e_work = _runs(seq, 1), _runs(seq, 2)
        if not _eq_runs(ready, e_ready, m):
            ctx.fail("gantt:%s:ready-runs" % kind)
        if not _eq_runs(working, e_work, m):
            ctx.fail("gantt:%s:working-runs" % kind)
        nruns = len(e_ready) + len(e_work)
    else:
        ready, working, absence = r
        e_ready, e_work, e_abs = _runs(seq, 0), _runs(seq, 1), _runs(seq, -1)
        if not _eq_runs(ready, e_ready, m):
            ctx.fail("gantt:%s:free-runs" % kind)
        if not _eq_runs(working, e_work, m):
            ctx.fail("gantt:%s:working-runs" % kind)
        if not _eq_runs(absence, e_abs, m):
            ctx.fail("gantt:%s:absence-runs" % kind)
        nruns = len(e_ready) + len(e_work) + len(e_abs)
        if e_abs:
            ctx.cover("gantt:%s:absence-run" % kind)
    # signature from concrete data only (never realise inputs: that would enumerate instead of solve)
    if kind in ("task", "component"):
        ctx.sig = (kind, n, tuple(e_ready), tuple(e_work))
    else:
        ctx.sig = (kind, n, tuple(e_ready), tuple(e_work), tuple(e_abs))
    ctx.nontrivial = nruns >= 1
    if nruns >= 2:
        ctx.cover("gantt:%s:multi-run" % kind)


gantt = _both_representations(_gantt)


def extract(p, ctx):
    """extract_*_list: exactly the objects whose log shows the state at all requested times."""
    from pDESy.model.base_workflow import BaseWorkflow
    from pDESy.model.base_product import BaseProduct
    from pDESy.model.base_team import BaseTeam
    from pDESy.model.base_workplace import BaseWorkplace

    owner = p["owner"]  # workflow/product/team/workplace
    kind = {"workflow": "task", "product": "component", "team": "worker", "workplace": "facility"}[owner]
    lens = p["lens"]
    objs = []
    seqs = []
    for oi, ln in enumerate(lens):
        seq = [p["o%d_%d" % (oi, i)] for i in range(ln)]
        o = _mk(kind, seq, ctx.symbolic, as_int=(oi % 2 == 0))
        o.ID = o.name = "x%d" % oi
        # attributes that the log does not determine (a planned absence step, the live state) are arbitrary: the answer is about the log
        if kind in ("worker", "facility") and ("ab%d" % oi) in p:
            o.absence_time_list = [p["ab%d" % oi]]
            ctx.cover("extract:absence-list-unrelated-to-log")
        if ("cur%d" % oi) in p:
            o.state = p["cur%d" % oi]
        objs.append(o)
        seqs.append(seq)
    times = [p["t%d" % i] for i in range(p["nt"])]
    if owner == "workflow":
        c = BaseWorkflow(objs)
    elif owner == "product":
        c = BaseProduct(objs)
    elif owner == "team":
        c = BaseTeam("team", ID="team", worker_list=objs)
    else:
        c = BaseWorkplace("wp", ID="wp", facility_list=objs)
    meths = {
        "workflow": {0: "extract_none_task_list", 1: "extract_ready_task_list", 2: "extract_working_task_list", -1: "extract_finished_task_list"},
        "product": {0: "extract_none_component_list", 1: "extract_ready_component_list", 2: "extract_working_component_list", -1: "extract_finished_component_list"},
        "team": {0: "extract_free_worker_list", 1: "extract_working_worker_list"},
        "workplace": {0: "extract_free_facility_list", 1: "extract_working_facility_list"},
    }[owner]
    code = p["code"]
    ok, got = ctx.call(getattr(c, meths[code]), times)
    if not ok:
        ctx.fail("extract:%s:raises:%s" % (owner, exc_tag(got)))
        return
    exp = []
    oor = False
    for o, seq in zip(objs, seqs):
        good = True
        for t in times:
            if t >= len(seq):
                good = False
                oor = True
                break
            if seq[t] != code:
                good = False
                break
        if good:
            exp.append(o)
    got_ids = sorted(o.ID for o in got)
    if got_ids != sorted(o.ID for o in exp) or any(not any(g is o for o in objs) for g in got):
        ctx.fail("extract:%s:wrong-set" % owner)
    if 0 < len(exp) < len(objs):
        ctx.cover("extract:partial")
    if oor:
        ctx.cover("extract:out-of-range")
    ctx.sig = (owner, code, tuple(lens), tuple(got_ids), oor)
    ctx.nontrivial = len(exp) > 0


def _rows(p, ctx, as_int):
    """create_data_for_gantt_plotly: index k -> init_datetime + k * unit_timedelta."""
    from pDESy.model.base_team import BaseTeam
    from pDESy.model.base_workplace import BaseWorkplace

    kind = p["kind"]
    n = p["n"]
    seq = [p["s%d" % i] for i in range(n)]
    o = _mk(kind, seq, ctx.symbolic, as_int=as_int)
    init = datetime.datetime(2024, 2, 28, 23, 58, 0, p.get("us", 0))
    u = p["u"]  # concrete per cube (minutes; seconds when "unit_s" is set)
    unit = datetime.timedelta(milliseconds=u) if p.get("unit_ms") else (datetime.timedelta(seconds=u) if p.get("unit_s") else datetime.timedelta(minutes=u))
    m = p["q"] / 2
    if kind == "worker":
        owner = BaseTeam("tm", ID="tm", worker_list=[o])
        ok, df = ctx.call(owner.create_data_for_gantt_plotly, init, unit, finish_margin=m, view_ready=True, view_absence=True)
    elif kind == "facility":
        owner = BaseWorkplace("wp", ID="wp", facility_list=[o])
        ok, df = ctx.call(owner.create_data_for_gantt_plotly, init, unit, finish_margin=m, view_ready=True, view_absence=True)
    elif p.get("via_container"):
        # the workflow / product level builders must give the rows of their members
        from pDESy.model.base_workflow import BaseWorkflow
        from pDESy.model.base_product import BaseProduct

        owner = BaseWorkflow([o]) if kind in ("task", "subtask") else BaseProduct([o])
        ok, df = ctx.call(owner.create_data_for_gantt_plotly, init, unit, finish_margin=m, view_ready=True)
    else:
        ok, df = ctx.call(o.create_data_for_gantt_plotly, init, unit, finish_margin=m, view_ready=True)
    if not ok:
        ctx.fail("rows:%s:raises:%s" % (kind, exc_tag(df)))
        return
    if kind in ("task", "component", "subtask"):
        exp = [("READY", a, b) for a, b in _runs(seq, 1)] + [("WORKING", a, b) for a, b in _runs(seq, 2)]
    else:
        exp = [("READY", a, b) for a, b in _runs(seq, 0)] + [("ABSENCE", a, b) for a, b in _runs(seq, -1)] + [("WORKING", a, b) for a, b in _runs(seq, 1)]
    got = []
    if len(df) != len(exp):
        ctx.fail("rows:%s:count" % kind)
    else:
        qi = p["q"]  # concrete per cube: datetime arithmetic stays concrete, the log decides the rows
        for row, (state, a, b) in zip(df, exp):
            # independent integer arithmetic in half-minutes
            s_half = 2 * a * u
            f_half = (2 * a + 2 * b + qi) * u
            half_unit_us = 500 if p.get("unit_ms") else (500000 if p.get("unit_s") else 30000000)
            es = (init + datetime.timedelta(microseconds=half_unit_us * s_half)).strftime("%Y-%m-%d %H:%M:%S")
            ef = (init + datetime.timedelta(microseconds=half_unit_us * f_half)).strftime("%Y-%m-%d %H:%M:%S")
            if row["State"] != state or row["Start"] != es or row["Finish"] != ef:
                ctx.fail("rows:%s:wrong-row" % kind)
            got.append((state, es, ef))
        if any(s == "READY" for s, _, _ in exp):
            ctx.cover("rows:ready")
    ctx.sig = ("rows", kind, n, u, tuple(got))
    ctx.nontrivial = len(exp) > 0


rows = _both_representations(_rows)


def lastdate(p, ctx):
    from pDESy.model.base_project import BaseProject

    init0 = datetime.datetime(2020, 1, 1, 0, 0, 0)
    prj = BaseProject(init_datetime=init0, unit_timedelta=datetime.timedelta(minutes=1))
    prj.time = p["time"]
    last = datetime.datetime(2024, 3, 1, 0, 0, 0) + datetime.timedelta(minutes=p["lm"])
    use_arg = p["use_arg"]
    u = p["u"]
    if use_arg:
        ok, r = ctx.call(prj.set_last_datetime, last, unit_timedelta=datetime.timedelta(minutes=u), set_init_datetime=bool(p["setinit"]))
    else:
        prj.unit_timedelta = datetime.timedelta(minutes=u)
        ok, r = ctx.call(prj.set_last_datetime, last, set_init_datetime=bool(p["setinit"]))
    if not ok:
        ctx.fail("lastdate:raises:%s" % exc_tag(r))
        return
    unit = prj.unit_timedelta
    if unit != datetime.timedelta(minutes=u):
        ctx.fail("lastdate:unit-not-kept")
    # last simulated step (index time-1) falls on `last`
    if r + (p["time"] - 1) * unit != last:
        ctx.fail("lastdate:last-step-not-on-date")
    if p["setinit"]:
        if prj.init_datetime != r:
            ctx.fail("lastdate:init-not-set")
    elif prj.init_datetime != init0:
        ctx.fail("lastdate:init-changed")
    ctx.cover("lastdate")
    ctx.sig = ("lastdate", int(use_arg), int(p["setinit"]), str(r), str(unit))
    ctx.nontrivial = True


def lastdate_after_insert(p, ctx):
    """The last step of a really simulated and then edited project (absence steps inserted) falls on the given date:
    'last step' is the last entry of the logs, which the edit must have kept aligned with project.time."""
    from model.family import build, sim_kwargs
    from props.histcore import Sim

    spec = {"tasks": [{"w": "$w0"}, {"w": "$w1"}], "edges": [[0, 1, 0]], "teams": [{"targets": [0, 1], "workers": [{"skills": {"0": 1, "1": 1}}]}], "run": {"max_time": 10}}
    with Sim(ctx):
        M = build(spec, p, ctx.symbolic)
        ok, r = ctx.call(M.project.simulate, **sim_kwargs(M))
        if ok:
            ok, r = ctx.call(M.project.insert_absence_time_list, [p["i0"], p["i1"]])
        if not ok:
            ctx.aborted = exc_tag(r)
            return
        u = ctx.c(p["u"])
        last = datetime.datetime(2024, 3, 1, 0, 0, 0)
        unit = datetime.timedelta(minutes=u)
        ok, r = ctx.call(M.project.set_last_datetime, last, unit_timedelta=unit, set_init_datetime=bool(p["setinit"]))
        if not ok:
            ctx.fail("lastdate:raises:%s" % exc_tag(r))
            return
        n = len(M.tasks[0].state_record_list)
        if r + (n - 1) * unit != last:
            ctx.fail("lastdate:last-log-entry-not-on-date")
        if len(M.project.cost_list) != n or ctx.c(M.project.time) != n:
            ctx.fail("lastdate:logs-and-clock-disagree-after-insert")
        ctx.cover("lastdate:after-insert")
        ctx.sig = ("lastdate-after-insert", n, u)
        ctx.nontrivial = True


def obligations(tier, seed):
    obs = []
    thorough = tier == "thorough"
    nmax = 7 if thorough else 5
    qmax = 6 if thorough else 4
    for kind, (lo, hi) in KINDS.items():
        codes = list(range(lo, hi + 1))
        for n in range(0, nmax + 1):
            plen = 0 if n <= 3 else (n - 3 if not thorough else n - 4)
            prefixes = [[]]
            for _ in range(plen):
                prefixes = [pp + [c] for pp in prefixes for c in codes]
            for pre in prefixes:
                obs.append({
                    "name": "gantt/%s/n=%d/prefix=%s" % (kind, n, ",".join(map(str, pre))),
                    "harness": "gantt",
                    "cube": {"kind": kind, "n": n, "prefix": pre},
                    "params": [["s%d" % i, lo, hi] for i in range(len(pre), n)] + [["q", 0, qmax]],
                    "timeout": 120 if not thorough else 400,
                })
    # extract_*_list
    for owner, kind, codes in (("workflow", "task", [0, 1, 2, -1]), ("product", "component", [0, 1, 2, -1]), ("team", "worker", [0, 1]), ("workplace", "facility", [0, 1])):
        lo, hi = KINDS[kind]
        lens_list = [[2, 3], [0, 2]] if not thorough else [[2, 3], [0, 2], [3, 3, 1]]
        for lens in lens_list:
            for code in codes:
                for nt in ([0, 1, 2] if not thorough else [0, 1, 2, 3]):
                    if thorough and len(lens) == 3 and nt == 3:
                        continue
                    obs.append({
                        "name": "extract/%s/lens=%s/code=%d/nt=%d" % (owner, lens, code, nt),
                        "harness": "extract",
                        "cube": {"owner": owner, "lens": lens, "code": code, "nt": nt},
                        "params": [["o%d_%d" % (oi, i), lo, hi] for oi, ln in enumerate(lens) for i in range(ln)] + [["t%d" % i, 0, 4] for i in range(nt)],
                        "timeout": 120 if not thorough else 400,
                    })
                    if nt in (1, 2) and lens == [2, 3]:
                        extra = [["cur%d" % oi, lo, hi] for oi in range(len(lens))]
                        if kind in ("worker", "facility"):
                            extra += [["ab%d" % oi, 0, 3] for oi in range(len(lens))]
                        obs.append(dict(obs[-1], name="extract-other-attrs/%s/lens=%s/code=%d/nt=%d" % (owner, lens, code, nt), params=obs[-1]["params"] + extra))
    # rows
    for kind, (lo, hi) in KINDS.items():
        for n, u, q in ([(2, 1, 2), (3, 2, 1), (3, 3, 0)] if not thorough else [(n, u, q) for n in (2, 3, 4) for u in (1, 2, 3, 7) for q in (0, 1, 2, 3)]):
            obs.append({
                "name": "rows/%s/n=%d/u=%d/q=%d" % (kind, n, u, q),
                "harness": "rows",
                "cube": {"kind": kind, "n": n, "u": u, "q": q},
                "params": [["s%d" % i, lo, hi] for i in range(n)],
                "timeout": 150 if not thorough else 600,
            })
    for kind in ("task", "component"):
        for (u, q, us) in ((1, 1, 500000), (3, 1, 700000), (1, 3, 999999)):
            lo, hi = KINDS[kind]
            obs.append({"name": "rows-container/%s/unit=%ds/q=%d/us=%d" % (kind, u, q, us), "harness": "rows",
                        "cube": {"kind": kind, "n": 3, "u": u, "q": q, "us": us, "unit_s": True, "via_container": True},
                        "params": [["s%d" % i, lo, hi] for i in range(3)], "timeout": 150 if not thorough else 600})
    # unit lengths with a sub-second part, every kind, directly and through the container
    for kind, (lo, hi) in KINDS.items():
        for (u, q, via) in ((1500, 1, False), (250, 3, False), (1500, 0, True)):
            if via and kind not in ("task", "component"):
                continue
            obs.append({"name": "rows-ms/%s/unit=%dms/q=%d/via=%d" % (kind, u, q, via), "harness": "rows",
                        "cube": {"kind": kind, "n": 4, "u": u, "q": q, "us": 0, "unit_ms": True, "via_container": via},
                        "params": [["s%d" % i, lo, hi] for i in range(4)], "timeout": 150 if not thorough else 600})
    for (u, q, via) in ((2, 1, False), (3, 0, True)):
        obs.append({"name": "rows-subproject-task/unit=%dmin/q=%d/via=%d" % (u, q, via), "harness": "rows",
                    "cube": {"kind": "subtask", "n": 3, "u": u, "q": q, "via_container": via},
                    "params": [["s%d" % i, -1, 2] for i in range(3)], "timeout": 150 if not thorough else 600})
    for setinit in (0, 1):
        obs.append({"name": "lastdate-after-insert/setinit=%d" % setinit, "harness": "lastdate_after_insert", "cube": {"setinit": setinit},
                    "params": [["w0", 1, 2], ["w1", 1, 2], ["i0", 0, 5], ["i1", 0, 5], ["u", 1, 2]], "pre": "i0 < i1", "timeout": 150 if not thorough else 600, "engine": "zsym"})
    for use_arg in (0, 1):
        for setinit in (0, 1):
            obs.append({
                "name": "lastdate/use_arg=%d/setinit=%d" % (use_arg, setinit),
                "harness": "lastdate",
                "cube": {"use_arg": use_arg, "setinit": setinit},
                "params": [["time", 0, 6 if not thorough else 12], ["u", 1, 3 if not thorough else 5], ["lm", 0, 3]],
                "timeout": 150 if not thorough else 600,
            })
    return obs
