"""C16 - saving to JSON and loading restores everything that was saved, at any stage of the project's life."""
import datetime
import inspect

from engine.sym import exc_tag
from model.family import build, sim_kwargs, install_hashes
from model.observe import dump, concrete_sig
from model.stubs import STUB_NOTES
from props import profiles
from props.histcore import Sim, diff_dumps, short_key
from props.jsoncore import JsonIO, deep_diff, restore_family_view
from props.simcore import SIM_FUNCTIONS

META = {
    "rule": "one case = one symbolic path through: bring a member to a stage (never simulated / paused at symbolic k / finished forward / finished backward), "
            "write_simple_json, read_simple_json into a new project, export again, re-simulate; or one constructor-parameter injectivity query; "
            "non-trivial = the saved project has >= 1 recorded step or the query is about a simulation-relevant parameter; distinct by stage + concrete logs / parameter name",
    "functions": ["BaseProject.write_simple_json/read_simple_json", "export_dict_json_data of BaseProduct/BaseComponent/BaseWorkflow/BaseTask/BaseSubProjectTask/BaseOrganization/BaseTeam/BaseWorker/BaseWorkplace/BaseFacility",
                  "read_json_data of BaseProduct/BaseWorkflow/BaseOrganization", "all model constructors"] + SIM_FUNCTIONS[:2],
    "stubs": STUB_NOTES + ["json.dump/json.load + open in pDESy.model.base_project: in-memory store with JSON normalisation (tuple->list, keys->str, IntEnum->int, TypeError otherwise); "
                           "float() in pDESy.model.base_task: identity on solver reals; replays use the real json module and real files"],
    "assumptions": profiles.ASSUMPTIONS + ["constructor parameters documented as 'advanced customized simulation' that the base simulation never reads (error_tolerance, additional_work_amount, additional_task_flag, actual_work_amount) and derived back references "
                                           "(parent_workflow, parent_product) are excluded from the injectivity obligation; the exclusion list is EXCLUDED below"],
    "bounds": {"quick": {"members": "2-3 tasks, <= 2 workers, optional facility/component/sub-project task", "pause step": "0..5", "numeric edge values": "0, 0.0 (as int), -1 included in ranges"},
               "thorough": {"members": "same + nested component", "pause step": "0..8"}},
    "outside": profiles.OUTSIDE + ["non-finite numbers", "file-system failures"],
}
REQUIRED_COVERS = {"any": ["stage:never", "stage:paused", "stage:forward", "stage:backward", "subproject-task", "refs-checked", "resimulated", "inject:saved", "empty-lists", "resumed-after-restore", "stage:edited", "stage:backward-due", "values-checked"]}

EXCLUDED = {
    "BaseTask": ["parent_workflow", "additional_work_amount", "additional_task_flag", "actual_work_amount"],
    "BaseComponent": ["parent_product", "error_tolerance", "error"],
    "BaseWorker": [],  # (the quality skills drive component.error in BaseTask.perform: simulation-relevant, so they are not excluded)
    "BaseFacility": [],
    "BaseTeam": [],
    "BaseWorkplace": [],
    "BaseSubProjectTask": ["parent_workflow", "additional_work_amount", "additional_task_flag", "actual_work_amount"],
}


# ---------------------------------------------------------------------------------------------- round trip
def check_refs(C, ctx):
    """Every cross reference of the restored project is an object of the restored project."""
    tasks = list(C.workflow.task_list)
    comps = list(C.product.component_list)
    teams = list(C.organization.team_list)
    wps = list(C.organization.workplace_list)
    workers = [w for t in teams for w in t.worker_list]
    facs = [f for w in wps for f in w.facility_list]

    def isin(x, pool):
        return any(x is y for y in pool)

    def chk(x, pool, what):
        if not isin(x, pool):
            ctx.fail("C16:reference-not-restored:%s" % what)

    for t in tasks:
        for x, _ in t.input_task_list:
            chk(x, tasks, "task.input_task_list")
        for x, _ in t.output_task_list:
            chk(x, tasks, "task.output_task_list")
        for x in t.allocated_team_list:
            chk(x, teams, "task.allocated_team_list")
        for x in t.allocated_workplace_list:
            chk(x, wps, "task.allocated_workplace_list")
        if t.target_component is not None:
            chk(t.target_component, comps, "task.target_component")
        for x in t.allocated_worker_list:
            chk(x, workers, "task.allocated_worker_list")
        for x in t.allocated_facility_list:
            chk(x, facs, "task.allocated_facility_list")
    for c in comps:
        for x in c.parent_component_list:
            chk(x, comps, "component.parent_component_list")
        for x in c.child_component_list:
            chk(x, comps, "component.child_component_list")
        for x in c.targeted_task_list:
            chk(x, tasks, "component.targeted_task_list")
        if c.placed_workplace is not None:
            chk(c.placed_workplace, wps, "component.placed_workplace")
    for tm in teams:
        for x in tm.targeted_task_list:
            chk(x, tasks, "team.targeted_task_list")
        if tm.parent_team is not None:
            chk(tm.parent_team, teams, "team.parent_team")
        for w in tm.worker_list:
            for x in w.assigned_task_list:
                chk(x, tasks, "worker.assigned_task_list")
    for wp in wps:
        for x in wp.targeted_task_list:
            chk(x, tasks, "workplace.targeted_task_list")
        if wp.parent_workplace is not None:
            chk(wp.parent_workplace, wps, "workplace.parent_workplace")
        for x in wp.placed_component_list:
            chk(x, comps, "workplace.placed_component_list")
        for f in wp.facility_list:
            for x in f.assigned_task_list:
                chk(x, tasks, "facility.assigned_task_list")
    ctx.cover("refs-checked")


VALUE_PARAMS = ("name", "default_work_amount", "work_amount_progress_of_unit_step_time", "default_progress", "due_time", "auto_task", "need_facility",
                "fixing_allocating_worker_id_list", "fixing_allocating_facility_id_list", "unit_timedelta", "space_size", "max_space_size", "cost_per_time",
                "solo_working", "team_id", "workplace_id", "main_workplace_id", "absence_time_list", "workamount_skill_mean_map", "facility_skill_map")


def _plain_equal(a, b):
    if isinstance(a, dict) and isinstance(b, dict):
        return sorted(a) == sorted(b) and all(_plain_equal(a[k], b[k]) for k in a)
    if isinstance(a, (list, tuple)) and isinstance(b, (list, tuple)):
        return len(a) == len(b) and all(_plain_equal(x, y) for x, y in zip(a, b))
    if (a is None) != (b is None):
        return False
    if a == b:
        return True
    return False


def check_values(M, MC, ctx):
    """Value-typed constructor parameters of every restored object equal those of the object that was saved."""
    for kind in ("tasks", "comps", "workers", "facs", "teams", "wps"):
        for o, r in zip(getattr(M, kind), getattr(MC, kind)):
            if type(o) is not type(r):
                ctx.fail("C16:restored-as-other-class:%s" % type(o).__name__)
                continue
            for name in VALUE_PARAMS:
                if hasattr(o, name) and not _plain_equal(getattr(o, name), getattr(r, name, None)):
                    ctx.fail("C16:value-not-restored:%s.%s" % (type(o).__name__, name))
    ctx.cover("values-checked")


def _path_key(path):
    """'.pDESy[2].task_list[1].lst' -> 'task_list.lst' (clause-level, no indices)."""
    import re

    parts = [re.sub(r"\[\d+\]", "", x) for x in path.split(".") if x]
    parts = [x for x in parts if x and x != "pDESy"]
    return ".".join(parts[-2:]) if parts else path


def roundtrip(p, ctx):
    from pDESy.model.base_project import BaseProject

    spec = p["spec"]
    stage = p["stage"]
    with Sim(ctx), JsonIO(ctx) as io:
        M = build(spec, p, ctx.symbolic)
        if p.get("configure_sub"):
            # a successfully simulated tiny project to configure the sub-project task from
            S = build({"tasks": [{"w": 2}], "teams": profiles.layout_workers("shared1", 1), "run": {"max_time": 5}}, p, ctx.symbolic)
            S.project.simulate(max_time=5)
            sp = io.path("subsrc.json")
            S.project.write_simple_json(sp)
            for t in M.tasks:
                if type(t).__name__ == "BaseSubProjectTask":
                    t.file_path = sp
                    ok, r = ctx.call(t.set_all_attributes_from_json)
                    if not ok:
                        ctx.fail("C16:configure-raised:%s" % exc_tag(r))
                        return
                    t.set_work_amount_progress_of_unit_step_time(M.project.unit_timedelta)
        if p.get("sub_unit_ms"):
            # a sub-project task whose own unit time has a day part and a sub-second part
            for t in M.tasks:
                if type(t).__name__ == "BaseSubProjectTask":
                    t.unit_timedelta = datetime.timedelta(milliseconds=p["sub_unit_ms"])
        kw = sim_kwargs(M)
        ok = True
        if stage == "paused":
            ok, r = ctx.call(M.project.simulate, **dict(kw, max_time=p["k"]))
        elif stage == "forward":
            ok, r = ctx.call(M.project.simulate, **kw)
        elif stage == "backward":
            ok, r = ctx.call(M.project.backward_simulate, **kw)
        elif stage == "backward-due":
            ok, r = ctx.call(M.project.backward_simulate, considering_due_time_of_tail_tasks=True, **kw)
        elif stage == "edited":
            ok, r = ctx.call(M.project.simulate, **kw)
            if ok:
                ok, r = ctx.call(M.project.insert_absence_time_list, [0, p["ie"]])
        if not ok:
            ctx.aborted = exc_tag(r)
            return
        ctx.cover("stage:" + stage)
        if any(type(t).__name__ == "BaseSubProjectTask" for t in M.tasks):
            ctx.cover("subproject-task")
        if any(ts.get("fixw") == [] for ts in spec["tasks"]):
            ctx.cover("empty-lists")
        f1 = io.path("p1.json")
        ok, r = ctx.call(M.project.write_simple_json, f1)
        if not ok:
            ctx.fail("C16:write-raised:%s" % exc_tag(r))
            return
        C = BaseProject()
        ok, r = ctx.call(C.read_simple_json, f1)
        if not ok:
            ctx.fail("C16:read-raised:%s" % exc_tag(r))
            return
        f2 = io.path("p2.json")
        ok, r = ctx.call(C.write_simple_json, f2)
        if not ok:
            ctx.fail("C16:rewrite-raised:%s" % exc_tag(r))
            return
        d = deep_diff(io.content(f1), io.content(f2))
        if d is not None:
            ctx.fail("C16:reexport-differs:%s" % _path_key(d))
            ctx.notes["differs_at"] = d
        check_refs(C, ctx)
        okv, MCv = ctx.call(restore_family_view, C, M)
        if not okv:
            ctx.fail("C16:restored-objects-not-found-by-id")
        else:
            check_values(M, MCv, ctx)
        # a paused project that was restored continues like the original (FIFO reads the restored state logs)
        if stage == "paused" and not ctx.fails:
            from pDESy.model.base_priority_rule import TaskPriorityRuleMode

            kwr = dict(kw, initialize_state_info=False, initialize_log_info=False, task_priority_rule=TaskPriorityRuleMode.FIFO)
            okm, r1 = ctx.call(M.project.simulate, **kwr)
            okc, r2 = ctx.call(C.simulate, **kwr)
            if okm != okc:
                ctx.fail("C16:resume-after-restore-raised:%s" % (exc_tag(r2) if not okc else "original"))
            elif okm:
                kd = diff_dumps(dump(M), dump(restore_family_view(C, M)))
                if kd is not None:
                    ctx.fail("C16:resume-after-restore-differs:%s" % short_key(kd))
                    ctx.notes["resume_differs_at"] = kd
                ctx.cover("resumed-after-restore")
        # the restored project re-simulates like the original (members use only saved settings)
        if p.get("resim", True) and not ctx.fails:
            okc, r = ctx.call(C.simulate, **kw)
            Tw = build(spec, p, ctx.symbolic)
            if p.get("configure_sub"):
                for t, t0 in zip(Tw.tasks, M.tasks):
                    if type(t).__name__ == "BaseSubProjectTask":
                        t.default_work_amount, t.unit_timedelta = t0.default_work_amount, t0.unit_timedelta
                        t.work_amount_progress_of_unit_step_time = t0.work_amount_progress_of_unit_step_time
            okt, r2 = ctx.call(Tw.project.simulate, **kw)
            if okc != okt:
                ctx.fail("C16:resimulation-raised:%s" % (exc_tag(r) if not okc else "twin"))
            elif okc:
                MC = restore_family_view(C, M)
                k = diff_dumps(dump(Tw), dump(MC))
                if k is not None:
                    ctx.fail("C16:resimulation-differs:%s" % short_key(k))
                    ctx.notes["resim_differs_at"] = k
                ctx.cover("resimulated")
    ctx.sig = (stage, concrete_sig(M))
    ctx.nontrivial = ctx.c(M.project.time) >= 1


# ---------------------------------------------------------------------------------------------- injectivity
UNITS = [datetime.timedelta(minutes=1), datetime.timedelta(minutes=2), datetime.timedelta(days=1), datetime.timedelta(hours=36), datetime.timedelta(days=2),
         datetime.timedelta(milliseconds=1500), datetime.timedelta(seconds=1)]


def _two_values(cls, name, p):
    """Two different values for constructor parameter `name` (numbers come from solver variables a != b)."""
    from pDESy.model.base_priority_rule import ResourcePriorityRuleMode as R, WorkplacePriorityRuleMode as W
    from pDESy.model.base_task import BaseTask
    from pDESy.model.base_team import BaseTeam
    from pDESy.model.base_workplace import BaseWorkplace
    from pDESy.model.base_component import BaseComponent
    from pDESy.model.base_worker import BaseWorker
    from pDESy.model.base_facility import BaseFacility

    a, b = p["a"], p["b"]
    num = ("default_work_amount", "work_amount_progress_of_unit_step_time", "default_progress", "due_time", "cost_per_time", "space_size", "max_space_size")
    if name in num:
        return a, b
    if name in ("name", "ID", "team_id", "workplace_id", "main_workplace_id", "file_path"):
        return "x1", "x2"
    if name in ("need_facility", "auto_task", "solo_working", "read_json_file", "remove_absence_time_list"):
        return False, True
    if name in ("workamount_skill_mean_map", "workamount_skill_sd_map", "facility_skill_map", "quality_skill_mean_map", "quality_skill_sd_map"):
        return {"k": a}, {"k": b}
    if name in ("absence_time_list",):
        return [1], [2]
    if name in ("fixing_allocating_worker_id_list", "fixing_allocating_facility_id_list"):
        return ["w1"], ["w2"]
    if name in ("worker_priority_rule", "facility_priority_rule"):
        return R.SSP, R.VC
    if name == "workplace_priority_rule":
        return W.FSS, W.SSP
    if name in ("input_task_list", "output_task_list"):
        return [], [[BaseTask("o", ID="o"), 0]]
    if name in ("allocated_team_list",):
        return [], [BaseTeam("o", ID="o")]
    if name in ("allocated_workplace_list", "input_workplace_list", "output_workplace_list"):
        return [], [BaseWorkplace("o", ID="o")]
    if name in ("parent_workplace",):
        return None, BaseWorkplace("o", ID="o")
    if name in ("parent_team",):
        return None, BaseTeam("o", ID="o")
    if name in ("target_component",):
        return None, BaseComponent("o", ID="o")
    if name in ("parent_component_list", "child_component_list"):
        return [], [BaseComponent("o", ID="o")]
    if name in ("targeted_task_list",):
        return [], [BaseTask("o", ID="o")]
    if name in ("worker_list",):
        return [], [BaseWorker("o", ID="o")]
    if name in ("facility_list",):
        return [], [BaseFacility("o", ID="o")]
    if name == "unit_timedelta":
        # unit lengths with a day part, a sub-second part, and plain minutes (the pair is a cube constant)
        return UNITS[p.get("ui", 0)], UNITS[p.get("uj", 1)]
    return None


def _classes():
    from pDESy.model.base_task import BaseTask
    from pDESy.model.base_subproject_task import BaseSubProjectTask
    from pDESy.model.base_component import BaseComponent
    from pDESy.model.base_worker import BaseWorker
    from pDESy.model.base_facility import BaseFacility
    from pDESy.model.base_team import BaseTeam
    from pDESy.model.base_workplace import BaseWorkplace

    return {c.__name__: c for c in (BaseTask, BaseSubProjectTask, BaseComponent, BaseWorker, BaseFacility, BaseTeam, BaseWorkplace)}


def basic_parameters(cls):
    """Constructor parameters up to (not including) the first 'variable' (state/log) parameter, from the current source."""
    sig = inspect.signature(cls.__init__)
    names = [n for n in sig.parameters if n != "self"]
    variables = {"est", "eft", "lst", "lft", "remaining_work_amount", "remaining_work_amount_record_list", "state", "state_record_list", "allocated_worker_list",
                 "allocated_worker_id_record", "allocated_facility_list", "allocated_facility_id_record", "placed_workplace", "placed_workplace_id_record", "cost_list",
                 "assigned_task_list", "assigned_task_id_record", "placed_component_list", "placed_component_id_record"}
    return [n for n in names if n not in variables]


def inject(p, ctx):
    """Two different values of a constructor parameter must give different exports (otherwise it is not saved)."""
    install_hashes()
    cname, name = p["cls"], p["param"]
    cls = _classes()[cname]
    tv = _two_values(cls, name, p)
    if tv is None:
        ctx.fail("C16:inject:no-value-table-for:%s.%s" % (cname, name))
        return
    v1, v2 = tv
    base = {"name": "n", "ID": "i"}
    k1, k2 = dict(base), dict(base)
    k1[name], k2[name] = v1, v2
    ok1, o1 = ctx.call(cls, **k1)
    ok2, o2 = ctx.call(cls, **k2)
    if not (ok1 and ok2):
        ctx.fail("C16:inject:constructor-raised:%s.%s" % (cname, name))
        return
    okx, e1 = ctx.call(o1.export_dict_json_data)
    oky, e2 = ctx.call(o2.export_dict_json_data)
    if not (okx and oky):
        ctx.fail("C16:export-raised:%s:%s" % (cname, exc_tag(e1 if not okx else e2)))
        return
    from props.jsoncore import normalise

    d = deep_diff(normalise(e1), normalise(e2))
    if d is None:
        ctx.fail("C16:unsaved-parameter:%s.%s" % (cname, name))
    else:
        ctx.cover("inject:saved")
    ctx.sig = ("inject", cname, name, d is None)
    ctx.nontrivial = True


def obligations(tier, seed):
    from engine import chconf

    chconf.force_repo_first()
    thorough = tier == "thorough"
    obs = []
    members = []
    for k in (0, 2):
        members.append(("wf-%s" % profiles.KN[k], {"tasks": [{"w": "$w0", "g": "$g0", "due": "$d0", "fixw": []}, {"w": "$w1", "auto": False}], "edges": [[0, 1, k]],
                                                    "teams": [{"targets": [0, 1], "workers": [{"skills": {"0": "$s0", "1": 1}, "cost": "$c0", "abs": ["$a0"]}, {"skills": {"1": 1}, "solo": True}]}],
                                                    "run": {"max_time": 8, "abs": ["$pa0"]}},
                        [["w0", 0, 2], ["w1", 0, 2], ["g0", 0, 2], ["d0", -1, 0], ["s0", 0, 2], ["c0", 0, 1], ["a0", 0, 2], ["pa0", 0, 3]], {}))
    fac = [ob for ob in profiles.p_product("F1", thorough) if "wps=2/links=none/wprule=0/fs" in ob["name"]][0]
    fspec = dict(fac["cube"]["spec"])
    for t in fspec["tasks"]:
        t.pop("wprule", None)
    members.append(("prod", fspec, [["w0", 1, 2], ["w1", 1, 2], ["cap0", 0, 2], ["z0", 0, 2]], {"z1": 1, "cap1": 1, "fs0": 1, "fs1": 1}))
    pf = [ob for ob in profiles.p_facility(thorough) if "1wp2f/fsk=all/solof=0/fixf=None/mixed=0" in ob["name"]][0]
    members.append(("pairs", pf["cube"]["spec"], [["w0", 2, 6], ["s00", 1, 2], ["f00", 0, 2], ["f11", 1, 2]], {"w1": 1, "cap": 2, "fa0": -1, "a1": -1}))
    members.append(("fan", {"tasks": [{"w": "$w0"}, {"w": 1, "due": "$d1"}, {"w": 1, "due": "$d2"}], "edges": [[0, 1, 0], [0, 2, 0]],
                            "teams": profiles.layout_workers("shared2", 3), "run": {"max_time": 10}}, [["w0", 1, 2], ["d1", 0, 2], ["d2", 0, 2]], {}))
    bare = dict(fspec, idstyle="bare")
    members.append(("prod-bare-ids", bare, [["w0", 1, 2], ["w1", 1, 2], ["cap0", 1, 2]], {"z0": 1, "z1": 1, "cap1": 1, "fs0": 1, "fs1": 1}))
    members.append(("sub-never", {"tasks": [{"w": "$w0"}, {"w": 1, "subproject": True}], "edges": [[0, 1, 0]], "teams": profiles.layout_workers("shared1", 2), "run": {"max_time": 8}},
                    [["w0", 0, 2]], {"resim": False}))
    members.append(("sub-configured", {"tasks": [{"w": "$w0"}, {"w": 1, "subproject": True}], "edges": [[0, 1, 0]], "teams": profiles.layout_workers("shared1", 2), "run": {"max_time": 8}},
                    [["w0", 0, 2]], {"configure_sub": True}))
    members.append(("sub-unit-36h-and-a-half-second", {"tasks": [{"w": "$w0"}, {"w": 1, "subproject": True}], "edges": [[0, 1, 0]], "teams": profiles.layout_workers("shared1", 2), "run": {"max_time": 8}},
                    [["w0", 0, 2]], {"resim": False, "sub_unit_ms": 36 * 3600 * 1000 + 500}))
    for mname, spec, params, consts in members:
        for stage in ("never", "paused", "forward", "backward", "edited", "backward-due"):
            if stage == "edited" and mname not in ("wf-FS", "prod"):
                continue
            if stage == "backward-due" and mname != "fan":
                continue
            if mname == "fan" and stage not in ("backward-due", "forward"):
                continue
            pr = list(params) + ([["k", 0, 8 if thorough else 4]] if stage == "paused" else []) + ([["ie", 0, 3]] if stage == "edited" else [])
            obs.append({"name": "roundtrip/%s/%s" % (mname, stage), "harness": "roundtrip", "cube": dict(consts, spec=spec, stage=stage), "params": pr,
                        "timeout": 900 if thorough else 150, "engine": "zsym"})
    obs = profiles.split_param(obs, "k")
    for cname, cls in _classes().items():
        for name in basic_parameters(cls):
            if name in EXCLUDED.get(cname, []):
                continue
            if name == "unit_timedelta":
                for ui in range(len(UNITS)):
                    for uj in range(ui + 1, len(UNITS)):
                        obs.append({"name": "inject/%s.%s/%d-%d" % (cname, name, ui, uj), "harness": "inject", "cube": {"cls": cname, "param": name, "ui": ui, "uj": uj},
                                    "params": [["a", 0, 1], ["b", 0, 1]], "pre": "a != b", "timeout": 60, "engine": "zsym"})
                continue
            obs.append({"name": "inject/%s.%s" % (cname, name), "harness": "inject", "cube": {"cls": cname, "param": name},
                        "params": [["a", -1, 3], ["b", -1, 3]], "pre": "a != b", "timeout": 60, "engine": "zsym"})
    return obs
