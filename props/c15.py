"""C15 - a run paused at any step and resumed gives exactly the uninterrupted result (in memory and through JSON)."""
from model.family import build, sim_kwargs
from model.observe import dump, concrete_sig
from model.stubs import STUB_NOTES
from props import profiles
from props.histcore import Sim, diff_dumps, short_key
from props.simcore import SIM_FUNCTIONS

META = {
    "rule": "one case = one symbolic path through an uninterrupted run and a paused+resumed run of twin members (pause step k symbolic); "
            "non-trivial = the pause falls strictly inside the run (0 < k < makespan); distinct by concrete logs and k",
    "functions": SIM_FUNCTIONS + ["BaseProject.write_simple_json/read_simple_json (JSON variant)", "export_dict_json_data/read_json_data of all model classes"],
    "stubs": STUB_NOTES + ["json.dump/json.load + open inside pDESy.model.base_project: in-memory store with JSON normalisation (JSON variant only; replays use real files)"],
    "assumptions": profiles.ASSUMPTIONS + ["JSON variant: members use only settings that are part of the saved format (no per-task priority rules, no main workplace, no workplace input links)"],
    "bounds": profiles.BOUNDS_TEXT,
    "outside": profiles.OUTSIDE,
}
REQUIRED_COVERS = {"any": ["pause-inside-run", "pause-at-0", "pause-after-end", "json-resume"]}


def _cmp(ctx, M_ref, M_res, tag):
    d1, d2 = dump(M_ref), dump(M_res)
    k = diff_dumps(d1, d2)
    if k is not None:
        ctx.fail("C15:%s:%s" % (tag, short_key(k)))
        ctx.notes["differs_at"] = k


def memory(p, ctx):
    spec = p["spec"]
    k = p["k"]
    with Sim(ctx):
        A = build(spec, p, ctx.symbolic)
        okA, rA = ctx.call(A.project.simulate, **sim_kwargs(A))
        B = build(spec, p, ctx.symbolic)
        kw = sim_kwargs(B)
        H = kw["max_time"]
        kw1 = dict(kw, max_time=k)
        okB1, r1 = ctx.call(B.project.simulate, **kw1)
        kw2 = dict(kw, initialize_state_info=False, initialize_log_info=False)
        okB2, r2 = ctx.call(B.project.simulate, **kw2)
        if not (okA and okB1 and okB2):
            if okA:
                ctx.fail("C15:memory:resume-raised")
            ctx.aborted = "raised"
        else:
            _cmp(ctx, A, B, "memory")
    kk = ctx.c(k)
    if 0 < kk < A.project.time:
        ctx.cover("pause-inside-run")
    if kk == 0:
        ctx.cover("pause-at-0")
    if kk >= A.project.time:
        ctx.cover("pause-after-end")
    ctx.sig = (concrete_sig(A), kk)
    ctx.nontrivial = 0 < kk < A.project.time


def through_json(p, ctx):
    from props.jsoncore import JsonIO, restore_family_view

    spec = p["spec"]
    k = p["k"]
    with Sim(ctx), JsonIO(ctx) as io:
        A = build(spec, p, ctx.symbolic)
        okA, rA = ctx.call(A.project.simulate, **sim_kwargs(A))
        B = build(spec, p, ctx.symbolic)
        kw = sim_kwargs(B)
        okB1, r1 = ctx.call(B.project.simulate, **dict(kw, max_time=k))
        path = io.path("paused.json")
        okw, rw = ctx.call(B.project.write_simple_json, path)
        if not okw:
            ctx.fail("C15:json:write-raised")
            return
        from pDESy.model.base_project import BaseProject

        C = BaseProject()
        okr, rr = ctx.call(C.read_simple_json, path)
        if not okr:
            ctx.fail("C15:json:read-raised")
            return
        okC, r2 = ctx.call(C.simulate, **dict(kw, initialize_state_info=False, initialize_log_info=False))
        if not (okA and okB1 and okC):
            if okA and okB1:
                ctx.fail("C15:json:resume-raised")
            ctx.aborted = "raised"
        else:
            MC = restore_family_view(C, B)
            _cmp(ctx, A, MC, "json")
            ctx.cover("json-resume")
    kk = ctx.c(k)
    if 0 < kk < A.project.time:
        ctx.cover("pause-inside-run")
    ctx.sig = (concrete_sig(A), kk, "json")
    ctx.nontrivial = 0 < kk < A.project.time


def obligations(tier, seed):
    import itertools

    thorough = tier == "thorough"
    obs = []
    H = 10
    # in memory: all kinds, workflow shapes, absence, rules
    base = []
    base += profiles.wf_cubes(2, ["private", "shared1"], 3, H=H, name="m2")
    base += profiles.wf_cubes(3, ["shared2"] if not thorough else ["shared2", "private"], 2, H=H, name="m3",
                              edge_sets=None if thorough else [[(0, 1), (0, 2)], [(0, 2), (1, 2)], [(0, 1), (1, 2)]])
    base += profiles.p_absence(wmax=2, H=H, kinds=(0, 2) if not thorough else (0, 1, 2, 3))
    base += profiles.p_absence(wmax=2, H=H, kinds=(0, 1) if not thorough else (0, 1, 2, 3), worker_absence=False)
    base += profiles.p_rules(wmax=2, H=H, rules=(0, 4, 5) if not thorough else range(9))
    # tasks listed in the workflow in reverse order (a successor before its predecessor)
    for ob in profiles.wf_cubes(3, ["private"], 2, H=H, name="m3rev", kinds=(2, 3), edge_sets=[[(0, 1), (1, 2)], [(0, 1), (0, 2)]]):
        ob = dict(ob)
        ob["cube"] = {"spec": dict(ob["cube"]["spec"], tl_order=[2, 1, 0])}
        base.append(ob)
    for ob in profiles.wf_cubes(2, ["private", "shared1"], 3, H=H, name="m2rev"):
        ob = dict(ob)
        ob["cube"] = {"spec": dict(ob["cube"]["spec"], tl_order=[1, 0])}
        base.append(ob)
    base += [ob for ob in profiles.p_facility(thorough, H=H) if "fsk=all" in ob["name"] and "solof=0" in ob["name"]]
    base += [ob for ob in profiles.p_product("F2", thorough, H=H) if "wps=2" in ob["name"]]
    base += [ob for ob in profiles.p_product("F3", thorough, H=H) if "wps=2" in ob["name"] and ("wprule=0" in ob["name"] or thorough)]
    # component states at a project-wide absence step that is also the pause step
    base += [ob for ob in profiles.p_product("F1", thorough, H=H, absence=True) if "wps=2" in ob["name"] and "/fs" in ob["name"] and ("wprule=0" in ob["name"] or thorough)]
    for ob in base:
        ob = dict(ob)
        if not thorough:
            # the pause step multiplies every schedule: keep the other ranges narrow in the quick tier
            narrow = {"f11": (1, 1), "a1": (-1, -1), "fa0": (-1, 0), "s00": (1, 2), "f00": (1, 2), "w1": (1, 2), "z1": (1, 1), "fs1": (1, 1),
                      "cap1": (1, 2), "cap0": (1, 2), "w2": (1, 1), "wa1": (-1, -1), "wa0": (-1, 1), "pa1": (-1, 2), "pa0": (-1, 2)}
            ob["params"] = [[n, max(lo, narrow[n][0]), min(hi, narrow[n][1])] if n in narrow else [n, lo, hi] for n, lo, hi in ob["params"]]
        elif ob["name"].startswith("fac/"):
            # (budget) the facility members with the pause step: one absence parameter each instead of the full ranges
            narrow = {"a1": (-1, 0), "fa0": (-1, 0), "f11": (1, 2)}
            ob["params"] = [[n, max(lo, narrow[n][0]), min(hi, narrow[n][1])] if n in narrow else [n, lo, hi] for n, lo, hi in ob["params"]]
        ob["harness"] = "memory"
        ob["name"] = "memory/" + ob["name"]
        ob["params"] = ob["params"] + [["k", 0, H if thorough else 7]]
        ob["timeout"] = 900 if thorough else 150
        ob["engine"] = "zsym"
        obs.append(ob)
    # through JSON: saved-settings members
    jb = profiles.wf_cubes(2, ["private", "shared1"], 2, H=H, name="j2")
    jb += [ob for ob in profiles.p_facility(thorough, H=H) if "fsk=all" in ob["name"] and "solof=0" in ob["name"] and "fixf=None" in ob["name"]][:2]
    # a task whose work is used up waits (FF / SF) for several steps: its remaining work amount is negative at the pause
    jb += [ob for ob in profiles.wf_cubes(2, ["private"], 3, H=H, name="j2w3", kinds=(2, 3)) if "edges=-" not in ob["name"]]
    # the task lists its workplaces in another order than the organization does, and the workplaces tie on free space
    for ob in [ob for ob in profiles.p_product("F1", thorough, H=H) if "wps=2/links=none/wprule=0" in ob["name"] and "/fs" in ob["name"]]:  # (the per-task workplace rule is not part of the saved format: known finding of C16)
        jb.append(dict(ob, name=ob["name"] + "/wp-order-reversed", cube={"spec": dict(ob["cube"]["spec"], wp_target_order="reversed")}))
    for ob in jb:
        ob = dict(ob)
        if not thorough:
            narrow = {"f11": (1, 1), "a1": (-1, -1), "fa0": (-1, -1), "s00": (1, 2), "f00": (1, 2), "w1": (1, 1), "cap": (2, 2)}
            ob["params"] = [[n, max(lo, narrow[n][0]), min(hi, narrow[n][1])] if n in narrow else [n, lo, hi] for n, lo, hi in ob["params"]]
            # enough work for a task that holds two worker-facility pairs over several steps
            ob["params"] = [[n, lo, 6] if (n == "w0" and "fac/" in ob["name"]) else [n, lo, hi] for n, lo, hi in ob["params"]]
        ob["harness"] = "through_json"
        ob["name"] = "json/" + ob["name"]
        ob["params"] = ob["params"] + [["k", 0, 6]]
        ob["timeout"] = 900 if thorough else 150
        ob["engine"] = "zsym"
        obs.append(ob)
    # personal absence steps of a facility and of a worker are saved settings: they must still apply after the pause, in the new project
    for ob in [ob for ob in profiles.p_facility(thorough, H=H) if "fsk=all" in ob["name"] and "solof=0" in ob["name"] and "fixf=None" in ob["name"]][:2]:
        ob = dict(ob)
        narrow = {"f11": (1, 1), "a1": (-1, 2), "fa0": (0, 3), "s00": (1, 1), "f00": (1, 2), "w0": (2, 4), "w1": (1, 1), "cap": (2, 2)}
        ob["params"] = [[n, narrow[n][0], narrow[n][1]] if n in narrow else [n, lo, hi] for n, lo, hi in ob["params"]]
        ob["harness"] = "through_json"
        ob["name"] = "json/personal-absence/" + ob["name"]
        ob["params"] = ob["params"] + [["k", 0, 4]]
        ob["timeout"] = 900 if thorough else 150
        ob["engine"] = "zsym"
        obs.append(ob)
    return obs
