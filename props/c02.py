"""C02 - oracle over observed simulate() runs (see props/oracles.py:c02)."""
from props.simcore import run_sim, SIM_FUNCTIONS
from props import profiles, oracles
from model.stubs import STUB_NOTES

META = {
    "rule": "one case = one symbolic path of simulate() on a family member (a class of work amounts/skills/costs/absence steps with the same schedule); "
            "non-trivial by the oracle's own rule (work allocated / >= 2 steps); distinct by the concrete state and allocation logs",
    "functions": SIM_FUNCTIONS,
    "stubs": STUB_NOTES,
    "assumptions": profiles.ASSUMPTIONS,
    "bounds": profiles.BOUNDS_TEXT,
    "outside": profiles.OUTSIDE,
}

REQUIRED_COVERS = {"any": profiles.REQUIRED["C02"] + ["insert-into-remaining-log"]}

CROSSCHECK = {"thorough": 8}


def sim(p, ctx):
    M = run_sim(p, ctx)
    oracles.c02(M, ctx)


def sim_history(p, ctx):
    from props.simcore import run_sim_history

    M = run_sim_history(p, ctx, p["mode"])
    if M.exc is None:
        oracles.c02(M, ctx)


def sim_then_insert(p, ctx):
    """The remaining-work log stays truthful when absence steps are inserted afterwards: an inserted step repeats the value
    before it (the initial remaining work w*(1-progress) for step 0); every other entry is unchanged."""
    M = run_sim(p, ctx)
    if M.exc is not None:
        return
    before = [list(t.remaining_work_amount_record_list) for t in M.tasks]
    T = M.project.time
    i0 = p["i0"]
    ok, r = ctx.call(M.project.insert_absence_time_list, [i0])
    if not ok:
        ctx.aborted = "insert raised"
        return
    ic = ctx.c(i0)
    if ic >= T:
        return
    for ti, t in enumerate(M.tasks):
        log = t.remaining_work_amount_record_list
        exp_ins = M.work[ti] * (1 - M.prog[ti] / 2) if ic == 0 else before[ti][ic - 1]
        if len(log) != len(before[ti]) + 1:
            ctx.fail("C02:insert:remaining-log-length")
        elif log[ic] != exp_ins:
            ctx.fail("C02:insert:inserted-step-changes-remaining-work")
        elif log[:ic] + log[ic + 1:] != before[ti]:
            ctx.fail("C02:insert:other-entries-changed")
    ctx.cover("insert-into-remaining-log")


def obligations(tier, seed):
    obs = profiles.obligations_for("C02", tier)
    for ob in profiles.p_progress_auto(wmax=3, H=8, timeout=600 if tier == "thorough" else 150):
        if "auto=00" in ob["name"]:
            obs.append(dict(ob, harness="sim_then_insert", name="insert/" + ob["name"], params=ob["params"] + [["i0", 0, 3]], engine="zsym"))
    return obs
