"""C10 - oracle over observed simulate() runs (see props/oracles.py:c10)."""
from props.simcore import run_sim, SIM_FUNCTIONS
from props import profiles, oracles
from model.stubs import STUB_NOTES

META = {
    "rule": "one case = one symbolic path of simulate() on a family member (a class of work amounts/skills/costs/absence steps with the same schedule); "
            "non-trivial by the oracle's own rule (work allocated / >= 2 steps); distinct by the concrete state and allocation logs",
    "functions": SIM_FUNCTIONS,
    "stubs": STUB_NOTES,
    "assumptions": profiles.ASSUMPTIONS,
    "bounds": profiles.BOUNDS_TEXT,
    "outside": profiles.OUTSIDE,
}

REQUIRED_COVERS = {"any": profiles.REQUIRED["C10"]}


def sim(p, ctx):
    M = run_sim(p, ctx)
    oracles.c10(M, ctx)


def obligations(tier, seed):
    return profiles.obligations_for("C10", tier)


def sim_after_other_flag(p, ctx):
    """The dead-time clauses also hold for a run that follows a run of the same project with the opposite auto-task flag."""
    import warnings
    from model.family import build, sim_kwargs
    from model.observe import Observer, concrete_sig
    from model.stubs import numpy_stub

    M = build(p["spec"], p, ctx.symbolic)
    with numpy_stub(ctx.symbolic), warnings.catch_warnings():
        warnings.simplefilter("ignore")
        kw = sim_kwargs(M)
        ok, r = ctx.call(M.project.simulate, **dict(kw, perform_auto_task_while_absence_time=not M.run["flag"]))
        obs = Observer(M)
        with obs.installed():
            ok2, r2 = ctx.call(M.project.simulate, **kw)
    M.obs = obs
    M.exc = None if ok2 else r2
    if ok and ok2:
        oracles.c10(M, ctx)
        ctx.cover("second-run-opposite-flag")
    ctx.sig = concrete_sig(M)


def sim_history(p, ctx):
    from props.simcore import run_sim_history

    M = run_sim_history(p, ctx, p["mode"])
    if M.exc is None:
        oracles.c10(M, ctx)


def equiv(p, ctx):
    """simulate(absence=L); remove_absence_time_list()  ==  simulate() without absence
    (members without individually absent resources and without component-bound automatic tasks; flag False or no auto task)."""
    from model.family import build, sim_kwargs
    from model.observe import dump, concrete_sig
    from props.histcore import Sim, diff_dumps, short_key

    spec = p["spec"]
    with Sim(ctx):
        A = build(spec, p, ctx.symbolic)
        runA = A.project.backward_simulate if p.get("backward") else A.project.simulate
        okA, r = ctx.call(runA, **sim_kwargs(A))
        n_in = sum(1 for a in A.run["abs"] if a < A.project.time)
        okR, r = ctx.call(A.project.remove_absence_time_list)
        B = build(spec, p, ctx.symbolic)
        kw = sim_kwargs(B)
        kw["absence_time_list"] = []
        okB, r = ctx.call(B.project.backward_simulate if p.get("backward") else B.project.simulate, **kw)
        if not (okA and okR and okB):
            ctx.fail("C10:equivalence:raised")
        else:
            finished = int(B.project.status) == 1 and int(A.project.status) == 1
            if finished:
                k = diff_dumps(dump(B), dump(A))
                if k is not None:
                    ctx.fail("C10:equivalence:%s%s" % ("zero-work-auto-task:" if p.get("zero_auto") else "", short_key(k)))
                    ctx.notes["differs_at"] = k
                if n_in:
                    ctx.cover("equivalence:absence-removed")
    ctx.sig = concrete_sig(B)
    ctx.nontrivial = n_in >= 1


_sim_obligations = obligations
REQUIRED_COVERS = {"any": profiles.REQUIRED["C10"] + ["equivalence:absence-removed", "second-run-opposite-flag"]}


def obligations(tier, seed):
    import itertools

    obs = _sim_obligations(tier, seed)
    thorough = tier == "thorough"
    obs += profiles.with_history([ob for ob in _sim_obligations(tier, seed) if ob["name"].startswith("abs/") and "k=FS" in ob["name"] and "flag=0" in ob["name"] and "pa0=1" in ob["name"]], "changed-absence", 2)
    resumed = [ob for ob in obs if ob["name"].startswith("abs/") and "/pa0=" not in ob["name"] and ("k=FS" in ob["name"] or thorough)]
    obs += profiles.with_history([ob for ob in _sim_obligations(tier, seed) if ob["name"].startswith("abs/") and "k=FS" in ob["name"] and "pa0=1" in ob["name"]], "resume", 4)
    # the personal absence lists are put in place only after the first part of the run (they were empty before)
    obs += profiles.with_history([ob for ob in _sim_obligations(tier, seed) if ob["name"].startswith("abs/") and ("k=FS" in ob["name"] or thorough) and "pa0=1" in ob["name"]], "edited-resume", 3)
    for ob in list(obs):
        if ob["name"].startswith("abs/") and "auto1=1" in ob["name"] and ("k=FS" in ob["name"] or thorough):
            obs.append(dict(ob, harness="sim_after_other_flag", name="otherflag/" + ob["name"]))
    for k in (0, 1, 2, 3):
        for layout in ("shared1", "private", "shared2"):
            for rule in ((0, 4, 5) if not thorough else (0, 1, 2, 3, 4, 5, 6, 7, 8)):
                for auto1 in (False, True):
                    spec = {"tasks": [{"w": "$w0"}, {"w": "$w1", "auto": auto1}, {"w": "$w2"}], "edges": [[0, 1, k], [0, 2, 0]],
                            "teams": profiles.layout_workers(layout, 3), "run": {"max_time": 14, "abs": ["$pa0", "$pa1"], "flag": False, "rule": rule}}
                    # an automatic task with zero work is kept in a cube of its own (known finding: it is promoted at an absence
                    # step and finishes without ever being logged WORKING), so that the main claim stays unmasked
                    obs.append({"name": "equiv/k=%s/%s/rule=%d/auto1=%d" % (profiles.KN[k], layout, rule, auto1), "harness": "equiv", "cube": {"spec": spec},
                                "params": [["w0", 0, 2], ["w1", 1 if auto1 else 0, 2], ["w2", 0, 2], ["pa0", 0, 5], ["pa1", 0, 8]], "pre": "pa0 < pa1",
                                "timeout": 900 if thorough else 150, "engine": "zsym"})
                    if auto1 and layout == "shared1" and rule == 0:
                        obs.append({"name": "equiv0/k=%s/%s/rule=%d/zero-work-auto" % (profiles.KN[k], layout, rule), "harness": "equiv", "cube": {"spec": spec, "w1": 0, "zero_auto": True},
                                    "params": [["w0", 0, 2], ["w2", 0, 2], ["pa0", 0, 5], ["pa1", 0, 8]], "pre": "pa0 < pa1",
                                    "timeout": 900 if thorough else 150, "engine": "zsym"})
    # the same step listed twice in the list given to simulate()
    for ob in [o for o in obs if o["name"].startswith("equiv/k=") and "/shared1/rule=0/auto1=0" in o["name"]]:
        obs.append(dict(ob, name=ob["name"].replace("equiv/", "equiv-duplicate-entry/"), pre="pa0 == pa1"))
    for ob in [o for o in obs if o["name"].startswith("equiv/k=FS/") and "/rule=0/" in o["name"]]:
        obs.append(dict(ob, name=ob["name"].replace("equiv/", "equiv-backward/"), cube=dict(ob["cube"], backward=True)))
    # a workplace with a facility (every container edits its own logs), the absence list given in either order
    for ob in profiles.p_cost(thorough, timeout=900 if thorough else 150):
        if "fac=1" not in ob["name"]:
            continue
        fixed = {"w0": (0, 2), "w1": (1, 2), "c0": (1, 2), "c1": (0, 1), "cf": (1, 2), "a0": (-1, -1), "fa0": (-1, -1), "pa0": (0, 4), "pa1": (0, 5)}
        spec = dict(ob["cube"]["spec"])
        spec["run"] = dict(spec["run"], max_time=14)
        obs.append({"name": "equiv/workplace-any-order/" + ob["name"], "harness": "equiv", "cube": {"spec": spec},
                    "params": [[n, fixed[n][0], fixed[n][1]] if n in fixed else [n, lo, hi] for n, lo, hi in ob["params"]], "pre": "pa0 != pa1",
                    "timeout": 900 if thorough else 150, "engine": "zsym"})
    # the automatic task as a predecessor (its SS / FS successor must not start earlier because of an absence step)
    for k in (0, 1):
        for layout in ("private", "shared1"):
            spec = {"tasks": [{"w": "$w0"}, {"w": "$w1", "auto": True}, {"w": "$w2"}], "edges": [[0, 1, 0], [1, 2, k]],
                    "teams": profiles.layout_workers(layout, 3), "run": {"max_time": 16, "abs": ["$pa0", "$pa1"], "flag": False, "rule": 0}}
            obs.append({"name": "equiv/auto-pred/k=%s/%s" % (profiles.KN[k], layout), "harness": "equiv", "cube": {"spec": spec},
                        "params": [["w0", 0, 2], ["w1", 1, 3], ["w2", 0, 2], ["pa0", 0, 5], ["pa1", 0, 8]], "pre": "pa0 < pa1",
                        "timeout": 900 if thorough else 150, "engine": "zsym"})
    # a task that several workers can share, competing with a chain for a worker who is eligible for both
    for rule in ((0, 4) if not thorough else range(9)):
        spec = {"tasks": [{"w": "$w0"}, {"w": "$w1"}, {"w": "$w2"}], "edges": [[0, 2, 0]],
                "teams": [{"targets": [0, 1, 2], "workers": [{"skills": {"1": 1}}, {"skills": {"0": 1, "1": 1, "2": 1}}]}],
                "run": {"max_time": 24, "abs": ["$pa0", "$pa1"], "flag": False, "rule": rule}}
        obs.append({"name": "equiv/helper/rule=%d" % rule, "harness": "equiv", "cube": {"spec": spec},
                    "params": [["w0", 1, 3], ["w1", 2, 8 if thorough else 6], ["w2", 1, 2], ["pa0", 0, 5], ["pa1", 0, 9]], "pre": "pa0 < pa1",
                    "timeout": 900 if thorough else 150, "engine": "zsym"})
    return profiles.split_param(obs, "pa0", only_if=lambda ob: "helper" in ob["name"])
