"""C12 - oracle over observed simulate() runs (see props/oracles.py:c12)."""
from props.simcore import run_sim, SIM_FUNCTIONS
from props import profiles, oracles
from model.stubs import STUB_NOTES

META = {
    "rule": "one case = one symbolic path of simulate() on a family member (a class of work amounts/skills/costs/absence steps with the same schedule); "
            "non-trivial by the oracle's own rule (work allocated / >= 2 steps); distinct by the concrete state and allocation logs",
    "functions": SIM_FUNCTIONS,
    "stubs": STUB_NOTES,
    "assumptions": profiles.ASSUMPTIONS,
    "bounds": profiles.BOUNDS_TEXT,
    "outside": profiles.OUTSIDE,
}

REQUIRED_COVERS = {"any": profiles.REQUIRED["C12"]}


def sim(p, ctx):
    M = run_sim(p, ctx)
    oracles.c12(M, ctx)


def sim_history(p, ctx):
    from props.simcore import run_sim_history

    M = run_sim_history(p, ctx, p["mode"])
    if M.exc is None:
        oracles.c12(M, ctx)


def obligations(tier, seed):
    return profiles.obligations_for("C12", tier)


def unit(p, ctx):
    """update_PERT_data on a freshly initialized workflow and after up to two rounds of new remaining amounts."""
    from model.family import build

    spec = p["spec"]
    M = build(spec, p, ctx.symbolic)
    n = len(M.tasks)
    ok, e = ctx.call(M.workflow.initialize)
    if not ok:
        ctx.fail("C12:unit:initialize-raised")
        return
    rem = [t.remaining_work_amount for t in M.tasks]
    oracles.c12_check(ctx, n, M.edges, rem, 0, [(t.est, t.eft, t.lst, t.lft) for t in M.tasks], M.workflow.critical_path_length, "unit:init")
    tcur = 0
    for r in range(p["rounds"]):
        tcur = tcur + p["dt%d" % r]
        rem = [p["r%d_%d" % (r, i)] for i in range(n)]
        for i, t in enumerate(M.tasks):
            t.remaining_work_amount = rem[i]
        ok, e = ctx.call(M.workflow.update_PERT_data, tcur)
        if not ok:
            ctx.fail("C12:unit:update-raised")
            return
        oracles.c12_check(ctx, n, M.edges, rem, tcur, [(t.est, t.eft, t.lst, t.lft) for t in M.tasks], M.workflow.critical_path_length, "unit:update%d" % r)
        if r == 1:
            ctx.cover("unit:second-update")
    if p.get("grow"):
        # the workflow grows after it has been used: a new head task in front of task 0 and a new tail task behind the last one
        from pDESy.model.base_task import BaseTask

        head = BaseTask("Thead", ID="thead", default_work_amount=p["gh"])
        tail = BaseTask("Ttail", ID="ttail", default_work_amount=p["gt"])
        M.tasks[0].append_input_task(head)
        tail.append_input_task(M.tasks[n - 1])
        M.workflow.task_list.append(head)
        M.workflow.task_list.append(tail)
        for how in ("update", "initialize"):
            if how == "update":
                ok, e = ctx.call(M.workflow.update_PERT_data, tcur)
                t_now = tcur
            else:
                ok, e = ctx.call(M.workflow.initialize)
                t_now = 0
            if not ok:
                ctx.fail("C12:unit:grown-%s-raised" % how)
                return
            # reference on the grown network: indices shifted so that the index order stays topological
            order = [head] + list(M.tasks) + [tail]
            edges2 = [(0, 1, 0)] + [(a + 1, b + 1, k) for (a, b, k) in M.edges] + [(n, n + 1, 0)]
            rem2 = [t.remaining_work_amount for t in order]
            oracles.c12_check(ctx, n + 2, edges2, rem2, t_now, [(t.est, t.eft, t.lst, t.lft) for t in order], M.workflow.critical_path_length, "unit:grown-%s" % how)
        ctx.cover("unit:grown")
    ctx.sig = ("unit", p["rounds"], repr(spec["edges"]))
    ctx.nontrivial = p["rounds"] >= 1 and len(M.edges) >= 1


_sim_obligations = obligations


def obligations(tier, seed):
    obs = _sim_obligations(tier, seed)
    thorough = tier == "thorough"
    for es in list(profiles.all_edge_sets(3)):
        spec = {"tasks": [{"w": "$w%d" % i} for i in range(3)], "edges": [[i, j, 0] for (i, j) in es], "teams": []}
        obs.append({"name": "unit/grow/T=3/edges=%s" % (",".join("%d>%d" % e for e in es) or "-"), "harness": "unit",
                    "cube": {"spec": spec, "rounds": 1, "grow": True},
                    "params": [["w%d" % i, 0, 2] for i in range(3)] + [["dt0", 0, 2]] + [["r0_%d" % i, 0, 2] for i in range(3)] + [["gh", 0, 2], ["gt", 0, 2]],
                    "timeout": 900 if thorough else 150, "engine": "zsym"})
    for T in ((2, 3, 4) if not thorough else (2, 3, 4, 5)):
        sets = list(profiles.all_edge_sets(T))
        if T == 4 and not thorough:
            sets = [es for k, es in enumerate(sets) if k % 3 == 0]
        two_rounds_4 = [es for k, es in enumerate(sets) if k % 8 == 3] if (T == 4 and thorough) else []
        if T == 5:
            sets = [es for k, es in enumerate(sets) if k % 41 == 7]
        for es in sets:
            for rounds in ((1, 2) if T <= 3 else (1,)):
                spec = {"tasks": [{"w": "$w%d" % i} for i in range(T)], "edges": [[i, j, 0] for (i, j) in es], "teams": []}
                rmax = 2 if T >= 4 else 3
                params = [["w%d" % i, 0, rmax] for i in range(T)] + [["dt%d" % r, 0, 2] for r in range(rounds)] + [["r%d_%d" % (r, i), 0, rmax] for r in range(rounds) for i in range(T)]
                obs.append({"name": "unit/T=%d/rounds=%d/edges=%s" % (T, rounds, ",".join("%d>%d" % e for e in es) or "-"), "harness": "unit",
                            "cube": {"spec": spec, "rounds": rounds}, "params": params, "timeout": 900 if thorough else 150, "engine": "zsym"})
        if T in (3, 4):
            # task names are not unique in pDESy (every unnamed task is "New Task"): the same networks with one name for all tasks
            for es in [es for k, es in enumerate(profiles.all_edge_sets(T)) if T == 3 or k % (2 if thorough else 4) == 1]:
                spec = {"tasks": [{"w": "$w%d" % i, "name": "New Task"} for i in range(T)], "edges": [[i, j, 0] for (i, j) in es], "teams": []}
                rmax = 2
                params = [["w%d" % i, 0, rmax] for i in range(T)] + [["dt0", 0, 2]] + [["r0_%d" % i, 0, rmax] for i in range(T)]
                obs.append({"name": "unit/same-name/T=%d/rounds=1/edges=%s" % (T, ",".join("%d>%d" % e for e in es) or "-"), "harness": "unit",
                            "cube": {"spec": spec, "rounds": 1}, "params": params, "timeout": 900 if thorough else 150, "engine": "zsym"})
        for es in two_rounds_4:
            # a slice of the 4-task networks with two update rounds and a narrower range (0..1)
            spec = {"tasks": [{"w": "$w%d" % i} for i in range(T)], "edges": [[i, j, 0] for (i, j) in es], "teams": []}
            params = [["w%d" % i, 0, 1] for i in range(T)] + [["dt%d" % r, 0, 1] for r in range(2)] + [["r%d_%d" % (r, i), 0, 2] for r in range(2) for i in range(T)]
            obs.append({"name": "unit/T=%d/rounds=2n/edges=%s" % (T, ",".join("%d>%d" % e for e in es) or "-"), "harness": "unit",
                        "cube": {"spec": spec, "rounds": 2}, "params": params, "timeout": 900, "engine": "zsym"})
    return obs
