"""Helpers for history-style harnesses (several API calls on one model): dumps, twins, defaults hygiene."""
import warnings

from engine.sym import exc_tag
from model.family import build, sim_kwargs
from model.observe import Observer, dump, concrete_sig, all_objects, log_attrs
from model.stubs import numpy_stub


def clear_mutable_defaults():
    """pDESy's simulate()/backward_simulate() have a mutable default `absence_time_list=[]`; whatever a run
    leaves in it must not leak into the next path of the exploration (and is itself what C09 looks for)."""
    from pDESy.model.base_project import BaseProject

    for fn in (BaseProject.simulate, BaseProject.backward_simulate):
        for d in (fn.__defaults__ or ()):
            if isinstance(d, list):
                del d[:]


def diff_dumps(d1, d2):
    """First key on which two dumps differ (None when equal).  Values may be solver variables."""
    for k in sorted(set(d1) | set(d2)):
        if k not in d1 or k not in d2:
            return k
        a, b = d1[k], d2[k]
        if isinstance(a, list) and isinstance(b, list):
            if len(a) != len(b):
                return k + ".len"
            for i in range(len(a)):
                x, y = a[i], b[i]
                if isinstance(x, list) and isinstance(y, list):
                    if len(x) != len(y):
                        return "%s[%d]" % (k, i)
                    for u, v in zip(x, y):
                        if u != v:
                            return "%s[%d]" % (k, i)
                elif (x is None) != (y is None):
                    return "%s[%d]" % (k, i)
                elif x is not None and x != y:
                    return "%s[%d]" % (k, i)
        elif a != b:
            return k
    return None


def short_key(k):
    """Clause-level part of a dump key: 'task:1.state_record_list[3]' -> 'task.state_record_list'."""
    k = k.split("[")[0]
    obj, _, attr = k.partition(".")
    return "%s.%s" % (obj.split(":")[0], attr) if attr else obj


class Sim:
    """numpy stub + warnings filter + mutable-default hygiene around API calls on a model."""

    def __init__(self, ctx):
        self.ctx = ctx

    def __enter__(self):
        clear_mutable_defaults()
        self._np = numpy_stub(self.ctx.symbolic)
        self._np.__enter__()
        self._w = warnings.catch_warnings()
        self._w.__enter__()
        warnings.simplefilter("ignore")
        return self

    def __exit__(self, *a):
        self._w.__exit__(*a)
        self._np.__exit__(*a)
        clear_mutable_defaults()
        return False


def log_lengths(M):
    """{'<object>.<log attr>': length} for every per-step log found by reflection."""
    out = {}
    for name, o in all_objects(M):
        for a in log_attrs(o):
            out["%s.%s" % (name, a)] = len(getattr(o, a))
    return out
