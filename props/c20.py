"""C20 - a sub-project task lasts exactly as long as the sub-project it stands for."""
import datetime
import warnings

from engine.sym import exc_tag
from model.family import build, sim_kwargs, install_hashes
from model.observe import concrete_sig
from model.stubs import STUB_NOTES
from props import profiles
from props.histcore import Sim
from props.jsoncore import JsonIO
from props.simcore import SIM_FUNCTIONS, NONE, READY, WORKING, FINISHED

META = {
    "rule": "one case = one symbolic path through: simulate the sub-project (symbolic work and absence steps), save it, configure a BaseSubProjectTask from the file "
            "(with/without absence removal), relate unit times, simulate the parent (symbolic predecessor work); non-trivial = the sub-project task worked >= 1 step; distinct by concrete logs",
    "functions": ["BaseSubProjectTask.set_all_attributes_from_json", "BaseSubProjectTask.set_work_amount_progress_of_unit_step_time", "BaseProject.read_simple_json/write_simple_json",
                  "BaseProject.remove_absence_time_list"] + SIM_FUNCTIONS,
    "stubs": STUB_NOTES + ["json/open in pDESy.model.base_project: in-memory store with JSON normalisation (replays use real files)"],
    "assumptions": profiles.ASSUMPTIONS + ["unit pairs with integer or dyadic ratio in the solver claim (1,2,3,4 minutes; 30 s; 12/24/36 h; 250/500/1500 ms); the ratio arithmetic itself is concrete on every path"],
    "bounds": {"quick": {"sub-project work": "1..6", "absence steps": "<= 2 in 0..6", "unit pairs": "14 (+4 with a sub-second part)", "predecessor work": "0..2"}, "thorough": {"sub-project work": "1..10", "absence steps": "<= 2 in 0..9", "unit pairs": "20 (+4)"}},
    "outside": profiles.OUTSIDE + ["D = 0 (a zero-length sub-project still shows one WORKING step)", "non-dyadic non-integer unit ratios"],
}
REQUIRED_COVERS = {"any": ["absence-removed", "absence-kept", "ratio:gt1", "ratio:lt1", "refused", "waits-for-predecessor", "configured-twice", "sub-project-backward", "file-rewritten", "parent-through-json", "unit-with-sub-second-part", "reconfigured-after-file-changed", "two-predecessors"]}


def _sub_spec(p):
    return {"tasks": [{"w": "$sw"}], "edges": [], "teams": profiles.layout_workers("shared1", 1), "run": {"max_time": 12, "abs": ["$sa0", "$sa1"]}}


def configure(p, ctx):
    from pDESy.model.base_subproject_task import BaseSubProjectTask
    from pDESy.model.base_project import BaseProject
    from pDESy.model.base_workflow import BaseWorkflow
    from pDESy.model.base_task import BaseTask
    from pDESy.model.base_team import BaseTeam
    from pDESy.model.base_worker import BaseWorker
    from pDESy.model.base_organization import BaseOrganization

    install_hashes()
    # units are given in whole seconds (sub_s / par_s) or, for units with a sub-second part, in milliseconds (sub_ms / par_ms)
    sub_ms = p["sub_ms"] if "sub_ms" in p else p["sub_s"] * 1000
    par_ms = p["par_ms"] if "par_ms" in p else p["par_s"] * 1000
    sub_unit = datetime.timedelta(milliseconds=sub_ms)
    par_unit = datetime.timedelta(milliseconds=par_ms)
    remove = bool(p["remove"])
    with Sim(ctx), JsonIO(ctx) as io:
        S = build(_sub_spec(p), p, ctx.symbolic)
        S.project.unit_timedelta = sub_unit
        kw = sim_kwargs(S)
        if p["stage"] == "failure":
            kw["max_time"] = 1
        if "smax" in p:
            kw["max_time"] = p["smax"]  # may be exactly the duration: the run still completes successfully
        if p["stage"] == "backward":
            ok, r = ctx.call(S.project.backward_simulate, **kw)
            ctx.cover("sub-project-backward")
            if not ok:
                ctx.aborted = exc_tag(r)
                return
        elif p["stage"] != "never":
            ok, r = ctx.call(S.project.simulate, **kw)
            if not ok:
                ctx.aborted = exc_tag(r)
                return
        path = io.path("sub.json")
        ok, r = ctx.call(S.project.write_simple_json, path)
        if not ok:
            ctx.fail("C20:write-raised:%s" % exc_tag(r))
            return
        sub_time = S.project.time
        # absence steps that were really simulated, from the list given to the run (not from the project's own bookkeeping)
        n_abs = len(set(a for a in ctx.c([p["sa0"], p["sa1"]]) if 0 <= a < sub_time))
        completed = p["stage"] != "never" and all(int(t.state) == -1 for t in S.tasks)
        if p.get("rewrite") and int(S.project.status) == 1:
            # another task was configured from an older result stored under the same path before
            S0 = build({"tasks": [{"w": 1}], "teams": profiles.layout_workers("shared1", 1), "run": {"max_time": 5}}, p, ctx.symbolic)
            S0.project.unit_timedelta = sub_unit
            S0.project.simulate(max_time=5)
            S0.project.write_simple_json(path)
            BaseSubProjectTask(file_path=path, name="old", ID="told").set_all_attributes_from_json(remove_absence_time_list=remove)
            S.project.write_simple_json(path)
            ctx.cover("file-rewritten")
        st = BaseSubProjectTask(file_path=path, name="sub", ID="t1")
        if p.get("reconfigure") and int(S.project.status) == 1:
            # the same task object was configured from this path before, when the file still held an older (shorter) result
            S0 = build({"tasks": [{"w": 1}], "teams": profiles.layout_workers("shared1", 1), "run": {"max_time": 5}}, p, ctx.symbolic)
            S0.project.unit_timedelta = sub_unit
            S0.project.simulate(max_time=5)
            S0.project.write_simple_json(path)
            ctx.call(st.set_all_attributes_from_json, remove_absence_time_list=remove)
            S.project.write_simple_json(path)
            ctx.cover("reconfigured-after-file-changed")
        before = (st.default_work_amount, st.unit_timedelta, st.work_amount_progress_of_unit_step_time, st.remove_absence_time_list, st.remaining_work_amount)
        if p.get("twice") and int(S.project.status) == 1:
            # configure once with the opposite setting first: the second call alone must decide
            ok0, r0 = ctx.call(st.set_all_attributes_from_json, remove_absence_time_list=not remove)
            ctx.cover("configured-twice")
            before = (st.default_work_amount, st.unit_timedelta, st.work_amount_progress_of_unit_step_time, st.remove_absence_time_list, st.remaining_work_amount)
        with warnings.catch_warnings(record=True) as wlist:
            warnings.simplefilter("always")
            ok, ret = ctx.call(st.set_all_attributes_from_json, remove_absence_time_list=remove)
        if not ok:
            ctx.fail("C20:configure-raised:%s" % exc_tag(ret))
            return
        success = int(S.project.status) == 1
        if completed and not success:
            ctx.fail("C20:completed-sub-project-not-successful")
        if not success:
            ctx.cover("refused")
            if not wlist:
                ctx.fail("C20:refused-without-warning")
            if ret != (-1, datetime.timedelta(days=1)):
                ctx.fail("C20:refused-wrong-return")
            after = (st.default_work_amount, st.unit_timedelta, st.work_amount_progress_of_unit_step_time, st.remove_absence_time_list, st.remaining_work_amount)
            if after != before:
                ctx.fail("C20:refused-but-task-changed")
            ctx.sig = ("refused", p["stage"], ctx.c(sub_time))
            ctx.nontrivial = True
            return
        D = sub_time - (n_abs if remove else 0)
        if n_abs:
            ctx.cover("absence-removed" if remove else "absence-kept")
        if st.default_work_amount != D:
            ctx.fail("C20:work-amount-not-duration")
        if st.unit_timedelta != sub_unit:
            ctx.fail("C20:unit-not-taken-from-sub-project")
        ok, r = ctx.call(st.set_work_amount_progress_of_unit_step_time, par_unit)
        if not ok:
            ctx.fail("C20:relate-raised:%s" % exc_tag(r))
            return
        # parent project: pred -> sub-project task (dependency kind per cube) -> succ
        pred = BaseTask("t0", ID="t0", default_work_amount=p["pw"])
        succ = BaseTask("t2", ID="t2", default_work_amount=1)
        st.append_input_task(pred, task_dependency_mode=p["kind"])
        succ.append_input_task(st)
        pred2 = None
        if p.get("two_preds"):
            # a second predecessor with a start-to-start link, served by the same single worker after the first one
            pred2 = BaseTask("t0", ID="t0b", default_work_amount=p["pw2"])
            st.append_input_task(pred2, task_dependency_mode=1)
            ctx.cover("two-predecessors")
        wk = BaseWorker("w0", ID="w0", team_id="tm0", cost_per_time=1, workamount_skill_mean_map={"t0": 1, "t2": 1, "sub": 1}, workamount_skill_sd_map={}, facility_skill_map={},
                        quality_skill_mean_map={}, quality_skill_sd_map={})
        tm = BaseTeam("tm0", ID="tm0", worker_list=[wk])
        tm.extend_targeted_task_list([pred, st, succ] + ([pred2] if pred2 is not None else []))
        prj = BaseProject(init_datetime=datetime.datetime(2024, 1, 1), unit_timedelta=par_unit, workflow=BaseWorkflow([pred, st, succ] + ([pred2] if pred2 is not None else [])),
                          organization=BaseOrganization(team_list=[tm], workplace_list=[]))
        if p.get("via_json"):
            # the parent project is saved, loaded and related to its unit time again before it is simulated
            pp = io.path("parent.json")
            okw, rw = ctx.call(prj.write_simple_json, pp)
            prj2 = BaseProject()
            okr, rr = ctx.call(prj2.read_simple_json, pp) if okw else (False, rw)
            if not (okw and okr):
                ctx.fail("C20:parent-json-raised:%s" % exc_tag(rw if not okw else rr))
                return
            st = [t for t in prj2.workflow.task_list if t.ID == "t1"][0]
            pred = [t for t in prj2.workflow.task_list if t.ID == "t0"][0]
            ok, r = ctx.call(st.set_work_amount_progress_of_unit_step_time, prj2.unit_timedelta)
            if not ok:
                ctx.fail("C20:relate-after-load-raised:%s" % exc_tag(r))
                return
            prj = prj2
            ctx.cover("parent-through-json")
        ok, r = ctx.call(prj.simulate, max_time=60)
        if not ok:
            ctx.fail("C20:parent-simulate-raised:%s" % exc_tag(r))
            return
        log = [int(s) for s in st.state_record_list]
        widx = [i for i, s in enumerate(log) if s == WORKING]
        sub_us = int(sub_ms) * 1000
        par_us = int(par_ms) * 1000
        Dc = ctx.c(D)
        expect = -((-Dc * sub_us) // par_us)  # ceil in integer arithmetic on microseconds
        if Dc >= 1:
            if len(widx) != expect:
                ctx.fail("C20:working-steps-not-ceil-of-duration")
                ctx.notes["expected_steps"] = expect
                ctx.notes["got_steps"] = len(widx)
            if widx and widx != list(range(widx[0], widx[0] + len(widx))):
                ctx.fail("C20:working-steps-not-consecutive")
            # starts as soon as its dependencies allow
            plog = [int(s) for s in pred.state_record_list]
            if p["kind"] == 0:
                first_ok = plog.index(FINISHED) if FINISHED in plog else None
            else:
                first_ok = next((i for i, s in enumerate(plog) if s in (WORKING, FINISHED)), None)
                if first_ok is not None and plog[first_ok] == WORKING:
                    first_ok += 1  # the update of the next step sees the predecessor WORKING
            if pred2 is not None:
                p2 = [int(s_) for s_ in pred2.state_record_list]
                f2 = next((i for i, s_ in enumerate(p2) if s_ in (WORKING, FINISHED)), None)
                if f2 is not None and p2[f2] == WORKING:
                    f2 += 1
                first_ok = None if (first_ok is None or f2 is None) else max(first_ok, f2)
            if widx and first_ok is not None and widx[0] != first_ok:
                ctx.fail("C20:does-not-start-when-dependencies-allow")
            if widx and widx[0] > 0:
                ctx.cover("waits-for-predecessor")
        if any(x for x in st.allocated_worker_id_record):
            ctx.fail("C20:worker-allocated-to-sub-project-task")
        if int(prj.status) != 1:
            ctx.fail("C20:parent-did-not-complete")
        if sub_us > par_us:
            ctx.cover("ratio:gt1")
        if sub_us < par_us:
            ctx.cover("ratio:lt1")
        if sub_ms % 1000:
            ctx.cover("unit-with-sub-second-part")
        ctx.sig = (tuple(log), tuple(int(s) for s in pred.state_record_list), Dc, sub_ms, par_ms, remove)
        ctx.nontrivial = len(widx) >= 1


def obligations(tier, seed):
    thorough = tier == "thorough"
    obs = []
    pairs = [(60, 60), (60, 120), (120, 60), (60, 180), (180, 60), (60, 240), (30, 60), (240, 60), (43200, 86400), (43200, 129600),
             (60, 30), (120, 180), (180, 120), (3600, 86400)]
    if thorough:
        pairs += [(90, 60), (60, 90), (7200, 3600), (86400, 3600), (60, 300), (300, 60)]
    swmax = 10 if thorough else 6
    samax = 9 if thorough else 6
    for (ss, ps) in pairs:
        for remove in (0, 1):
            for kind in (0, 1):
                if kind == 1 and (ss, ps) not in ((60, 60), (60, 120), (120, 60)):
                    continue
                twice = (ss, ps) in ((60, 60), (60, 120))
                obs.append({"name": "sub/%ds-in-%ds/remove=%d/kind=%d%s" % (ss, ps, remove, kind, "/twice" if twice else ""), "harness": "configure",
                            "cube": {"sub_s": ss, "par_s": ps, "remove": remove, "kind": kind, "stage": "success", "twice": twice},
                            "params": [["sw", 1, swmax], ["sa0", 0, samax], ["sa1", 0, samax], ["pw", 0, 2]], "pre": "sa0 < sa1",
                            "timeout": 600 if thorough else 150, "engine": "zsym"})
    # units with a sub-second part (ratios 3/2, 1/2, 1/4, 3): the unit must survive the saved file exactly
    for (sm, pm) in ((1500, 1000), (500, 1000), (250, 1000), (1500, 500)):
        for remove in (0, 1):
            obs.append({"name": "sub/%dms-in-%dms/remove=%d" % (sm, pm, remove), "harness": "configure",
                        "cube": {"sub_ms": sm, "par_ms": pm, "remove": remove, "kind": 0, "stage": "success"},
                        "params": [["sw", 1, swmax], ["sa0", 0, samax], ["sa1", 0, samax], ["pw", 0, 1]], "pre": "sa0 < sa1",
                        "timeout": 600 if thorough else 150, "engine": "zsym"})
    for (ss, ps) in ((60, 120), (129600, 43200), (86400, 86400)):
        obs.append({"name": "sub/%ds-in-%ds/parent-through-json" % (ss, ps), "harness": "configure",
                    "cube": {"sub_s": ss, "par_s": ps, "remove": 1, "kind": 0, "stage": "success", "via_json": True},
                    "params": [["sw", 1, 3], ["sa0", 0, 4], ["sa1", 1, 6], ["pw", 0, 1]], "pre": "sa0 < sa1", "timeout": 150, "engine": "zsym"})
    for remove in (0, 1):
        # the sub-project's absence list names the same step twice
        obs.append({"name": "sub/duplicate-absence-entry/remove=%d" % remove, "harness": "configure",
                    "cube": {"sub_s": 60, "par_s": 60, "remove": remove, "kind": 0, "stage": "success", "pw": 1},
                    "params": [["sw", 1, 4], ["sa0", 0, 5], ["sa1", 0, 5]], "pre": "sa0 == sa1", "timeout": 150, "engine": "zsym"})
    for remove in (0, 1):
        obs.append({"name": "sub/reconfigured-after-file-changed/remove=%d" % remove, "harness": "configure",
                    "cube": {"sub_s": 60, "par_s": 60, "remove": remove, "kind": 0, "stage": "success", "pw": 1, "reconfigure": True},
                    "params": [["sw", 2, 4], ["sa0", 0, 3], ["sa1", 1, 6]], "pre": "sa0 < sa1", "timeout": 150, "engine": "zsym"})
        for kind in (0, 1):
            obs.append({"name": "sub/two-predecessors/kind=%d/remove=%d" % (kind, remove), "harness": "configure",
                        "cube": {"sub_s": 60, "par_s": 60, "remove": remove, "kind": kind, "stage": "success", "two_preds": True},
                        "params": [["sw", 1, 3], ["sa0", 0, 3], ["sa1", 1, 5], ["pw", 0, 2], ["pw2", 0, 2]], "pre": "sa0 < sa1", "timeout": 150, "engine": "zsym"})
    for remove in (0, 1):
        obs.append({"name": "sub/rewritten-file/remove=%d" % remove, "harness": "configure",
                    "cube": {"sub_s": 60, "par_s": 60, "remove": remove, "kind": 0, "stage": "success", "pw": 1, "rewrite": True},
                    "params": [["sw", 2, 4], ["sa0", 0, 3], ["sa1", 1, 6]], "pre": "sa0 < sa1", "timeout": 150, "engine": "zsym"})
    for remove in (0, 1):
        obs.append({"name": "sub/exact-max-time/remove=%d" % remove, "harness": "configure",
                    "cube": {"sub_s": 60, "par_s": 60, "remove": remove, "kind": 0, "stage": "success", "pw": 1},
                    "params": [["sw", 1, 3], ["sa0", 0, 3], ["sa1", 1, 6], ["smax", 1, 6]], "pre": "sa0 < sa1", "timeout": 150, "engine": "zsym"})
        obs.append({"name": "sub/backward/remove=%d" % remove, "harness": "configure",
                    "cube": {"sub_s": 60, "par_s": 60, "remove": remove, "kind": 0, "stage": "backward", "pw": 1},
                    "params": [["sw", 1, 4], ["sa0", 0, 5], ["sa1", 1, 7]], "pre": "sa0 < sa1", "timeout": 150, "engine": "zsym"})
    for stage in ("never", "failure"):
        for remove in (0, 1):
            obs.append({"name": "sub/refused/%s/remove=%d" % (stage, remove), "harness": "configure",
                        "cube": {"sub_s": 60, "par_s": 60, "remove": remove, "kind": 0, "stage": stage, "pw": 1},
                        "params": [["sw", 2, 4], ["sa0", 0, 3], ["sa1", 0, 3]], "pre": "sa0 < sa1", "timeout": 150, "engine": "zsym"})
    return obs
