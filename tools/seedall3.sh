#!/bin/sh
cd /verif
for P in "$@"; do
for m in m1 m2; do
  src=/tmp/w3-$P/_seed/$m
  [ -f $src/patch.diff ] || { echo "$P-r3$m: no patch"; continue; }
  if .venv/bin/python tools/seedtest.py confirm $src $P-r3$m $P > /tmp/seed-$P-r3$m.confirm.log 2>&1; then
    .venv/bin/python tools/seedtest.py run $P-r3$m $P 2>&1 | tail -1
  else
    echo "$P-r3$m: NOT CONFIRMED"; grep -E '"(patch_applies|tests_pass_with_change|demo_with_change_exit|demo_without_change_exit)"' /tmp/seed-$P-r3$m.confirm.log
  fi
done
done
