#!/bin/sh
# development aid: try a seeded change in its scratch worktree without touching /repo
# usage: tools/devseed.sh <worktree> <patch> <Cxx> [tier]
wt=$1; patch=$2; P=$3; tier=${4:-quick}
git -C $wt apply $patch || exit 3
VERIF_DEV_REPO=$wt VERIF_NPROC=${VERIF_NPROC:-4} ./vcheck $P $tier 2>&1 | grep -v "^  witness" | tail -${LINES_OUT:-12}
git -C $wt checkout -- .
