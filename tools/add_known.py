#!/usr/bin/env python3
"""Append a *known* finding (never at check run time): tools/add_known.py <replay.json> <tag> <what...>"""
import json, sys, os
V = os.path.dirname(os.path.dirname(os.path.abspath(__file__)))
case = json.load(open(sys.argv[1]))
tag = sys.argv[2]
what = " ".join(sys.argv[3:])
d = json.load(open(os.path.join(V, "known_findings.json")))
assert tag in case.get("observed", []) or tag in case.get("fails", []), (tag, case.get("observed"))
for f in d["findings"]:
    if f.get("status") == "known" and f["property"] == case["prop"] and f["tag"] == tag:
        print("already listed"); sys.exit(0)
d["findings"].append({"property": case["prop"], "status": "known", "tag": tag, "what": what,
                      "witness": {"harness": case["harness"], "cube": case["cube"], "params": case["params"]}})
json.dump(d, open(os.path.join(V, "known_findings.json"), "w"), indent=1)
print("added", case["prop"], tag)
