#!/usr/bin/env python3
"""Differential check of the two engines: the same obligations on zsym and on CrossHair must explore the same
set of concrete trace signatures and reach the same verdict.   .venv/bin/python tools/crosscheck.py C01 6"""
import importlib
import json
import multiprocessing as mp
import os
import sys
import time

V = os.path.dirname(os.path.dirname(os.path.abspath(__file__)))
sys.path.insert(0, V)


def one(args):
    ob, eng = args
    from engine.worker import run_obligation

    ob = dict(ob, engine=eng, timeout=600)
    r = run_obligation(ob)
    return ob["name"], eng, r["verdict"], r["paths"], sorted(r["sigs"]), r["covers"], r["wall_s"]


def main():
    prop, n = sys.argv[1], int(sys.argv[2])
    from engine import chconf

    chconf.force_repo_first()
    mod = importlib.import_module("props." + prop.lower())
    obs = [o for o in mod.obligations("quick", 0) if o.get("engine") == "zsym"]
    for o in obs:
        o["prop"] = prop
    # small ones: fewest symbolic values
    def size(o):
        s = 1
        for _, lo, hi in o["params"]:
            s *= hi - lo + 1
        return s
    obs = sorted(obs, key=size)[:: max(1, len(obs) // n)][:n]
    jobs = [(o, e) for o in obs for e in ("zsym", "crosshair")]
    with mp.get_context("fork").Pool(16, maxtasksperchild=1) as pool:
        out = pool.map(one, jobs, chunksize=1)
    by = {}
    for name, eng, verdict, paths, sigs, covers, wall in out:
        by.setdefault(name, {})[eng] = (verdict, paths, sigs, covers, wall)
    bad = 0
    for name, d in by.items():
        z, c = d["zsym"], d["crosshair"]
        same = z[0] == c[0] and z[2] == c[2]
        print("%-70s %s zsym: %s %d paths %d sigs %.1fs | crosshair: %s %d paths %d sigs %.1fs" % (name[:70], "OK  " if same else "DIFF", z[0], z[1], len(z[2]), z[4], c[0], c[1], len(c[2]), c[4]))
        bad += not same
    print("crosscheck %s: %d obligations, %d disagreements" % (prop, len(by), bad))
    return 1 if bad else 0


if __name__ == "__main__":
    sys.exit(main())
