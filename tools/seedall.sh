#!/bin/sh
# tools/seedall.sh C04 [extra props...]  : confirm /tmp/wt-C04/_seed/m1,m2 and run the property's quick check against each
P=$1; shift
cd /verif
for m in m1 m2; do
  src=/tmp/wt-$P/_seed/$m
  [ -f $src/patch.diff ] || { echo "$P-$m: no patch"; continue; }
  if .venv/bin/python tools/seedtest.py confirm $src $P-$m $P > /tmp/seed-$P-$m.confirm.log 2>&1; then
    .venv/bin/python tools/seedtest.py run $P-$m $P "$@" 2>&1 | tail -3
  else
    echo "$P-$m: NOT CONFIRMED"; grep -E '"(patch_applies|tests_pass_with_change|demo_with_change_exit|demo_without_change_exit)"' /tmp/seed-$P-$m.confirm.log
  fi
done
