#!/bin/sh
cd /verif
for P in "$@"; do
for m in m1 m2; do
  src=/tmp/w4-$P/_seed/$m
  [ -f $src/patch.diff ] || { echo "$P-r4$m: no patch"; continue; }
  if .venv/bin/python tools/seedtest.py confirm $src $P-r4$m $P > /tmp/seed-$P-r4$m.confirm.log 2>&1; then
    .venv/bin/python tools/seedtest.py run $P-r4$m $P 2>&1 | tail -1
  else
    echo "$P-r4$m: NOT CONFIRMED"; grep -E '"(patch_applies|tests_pass_with_change|demo_with_change_exit|demo_without_change_exit)"' /tmp/seed-$P-r4$m.confirm.log
  fi
done
done
