#!/bin/sh
# usage: tools/seedall6.sh confirm|run Cxx...
cd /verif
mode=$1; shift
for P in "$@"; do
for m in m1 m2; do
  src=/tmp/w7-$P/_seed/$m
  sid=$P-r7$m
  if [ "$mode" = confirm ]; then
    [ -f $src/patch.diff ] || { echo "$sid: no patch"; continue; }
    if .venv/bin/python tools/seedtest.py confirm $src $sid $P > /tmp/seed-$sid.confirm.log 2>&1; then
      echo "$sid: confirmed"
    else
      echo "$sid: NOT CONFIRMED"; grep -E '"(patch_applies|tests_pass_with_change|demo_with_change_exit|demo_without_change_exit)"' /tmp/seed-$sid.confirm.log
    fi
  else
    [ -f seeded/$sid/meta.json ] || { echo "$sid: not confirmed, skipped"; continue; }
    .venv/bin/python tools/seedtest.py run $sid $P 2>&1 | tail -1
  fi
done
done
