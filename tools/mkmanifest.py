#!/usr/bin/env python3
"""Regenerate /verif/MANIFEST.json from the table below and validate it (and evidence files) against the schemas."""
import json
import os
import sys

V = os.path.dirname(os.path.dirname(os.path.abspath(__file__)))
TECH = "bounded dynamic symbolic execution of the real Python source with z3 deciding every branch (zsym: proxy numbers through pDESy's own code; CrossHair for the leaf units of C11/C19); path tree exhausted per cube; counterexamples and sampled witnesses replayed on the real code"

SIM_NOTE = ("Trusted: z3; the zsym proxy layer (engine/zsym.py: ints as z3 Int, floats as exact z3 Real on the dyadic domain stated in the evidence); the harness, stubs "
            "(np.random.normal with sd 0 -> mean, in-memory JSON where used, harness-fixed hashes of task/component objects) and the oracle in props/; "
            "every counterexample and up to 3 witnesses per cube are re-run on plain CPython with the real libraries and must give the same logs. "
            "Outside the bound: sizes/ranges beyond those in the evidence, non-dyadic skills, random skills.")


def sim_claim(what, ref):
    return ("Bounded symbolic model checking of the real simulate() code path: each obligation is one cube (structure fixed, numbers symbolic) whose path tree is explored to "
            "exhaustion with the oracle true on every path - z3's verdict for every value of the symbolic inputs in the stated ranges; the cubes also vary the call history "
            "(run after a cut, backward or complete run on an edited model, continued in memory or through a file) where the property's quantifier asks for it. " + what, SIM_NOTE, ref)


CLAIMS = {
    "C01": sim_claim("Oracle: FS/SS/FF/SF gates at every phase of every step (live) and in the logs, monotone lifecycle; families: all edge sets x all dependency kinds on 3 tasks, "
                     "default progress, auto tasks, project/worker absence, task rules.", "DESIGN.md §4 C01"),
    "C02": sim_claim("Oracle: remaining work changes only in the perform phase and by exactly the recomputed contribution of the live allocation (skills, worker x facility pairs, auto rate, "
                     "0 for absent resources), finishing only after zero and at the next step, logs equal live values.", "DESIGN.md §4 C02"),
    "C03": sim_claim("Oracle: exclusivity, two-way task<->resource consistency at the updated/allocated/recorded phases, resource state vs holding, release on FINISHED, ID logs agree.", "DESIGN.md §4 C03"),
    "C04": sim_claim("Oracle: every newly logged allocation satisfies skill > 0, team/workplace targeting, presence, fixed-ID lists, solo rules, pairing and facility-skill of the worker.", "DESIGN.md §4 C04"),
    "C05": sim_claim("Oracle: simulate() returns (also on facility/product members), no step at or beyond symbolic max_time, status truthful, and - for members satisfying the strong feasibility "
                     "predicate - SUCCESS whenever max_time exceeds the sequential bound; unserved task => not SUCCESS.", "DESIGN.md §4 C05"),
    "C06": sim_claim("Oracle: gates satisfied => not NONE, unbound auto tasks never wait, no eligible FREE worker (or worker-facility pair) while a task can accept it, zero-work tasks finish at the next step.", "DESIGN.md §4 C06"),
    "C07": sim_claim("Oracle: per-step charge of every worker/facility = rate x [logged WORKING], 0 at absence steps, team/workplace/organization/project sums and totals; rates, work and absence steps symbolic.", "DESIGN.md §4 C07"),
    "C08": sim_claim("Harness: histories of up to 3 API calls (simulate, resume with all init flags, backward_simulate, reverse_log_information, initialize) as cubes with symbolic max_time/work; "
                     "oracle: every log found by reflection has project.time entries after every call; entry k equals the recorded-phase snapshot; reversal is an involution.", "DESIGN.md §4 C08"),
    "C09": sim_claim("Harness: the same member simulated under a permuted iteration order of pDESy's internal sets (harness-controlled hashes: real sets), simulated twice, and after other API calls "
                     "(hidden state through mutable defaults); oracle: identical dumps; plus an AST scan that every unordered construct in pDESy/model is one the harness controls.", "DESIGN.md §4 C09"),
    "C10": sim_claim("Oracle: at project absence steps no non-auto progress, no new allocation, everything logged ABSENCE, zero cost, auto tasks progress iff the flag; absent resources contribute and cost nothing; "
                     "and remove_absence_time_list(simulate(absence=L)) == simulate() dump equality with two symbolic absence steps.", "DESIGN.md §4 C10"),
    "C11": ("Unit level (CrossHair): every sort function and rule mode on lists of <= 3 (quick) / 4 (thorough) objects with symbolic keys incl. ties, missing skills and equal-but-not-identical ID strings: "
            "output is a permutation ordered by the documented key, ties stable. Integration (zsym): under contention, for all 9 task rules, no worker is newly given to a lower-priority task while eligible "
            "for a strictly higher-priority task that can accept it.", SIM_NOTE, "DESIGN.md §4 C11"),
    "C12": sim_claim("Oracle: est/eft/lst/lft/critical path length of every task equal an independent longest-path computation at every update inside simulate() and in a unit harness "
                     "(initialize, then up to two rounds of arbitrary remaining amounts + update_PERT_data(t)); all FS networks on 3 tasks, sampled edge sets on 4 (all on thorough) and 5.", "DESIGN.md §4 C12"),
    "C13": sim_claim("Oracle: single location, two-way consistency, capacity by top-most placed components, conveyor rule, one change of location per step, no move while a task is WORKING, release when finished, "
                     "facilities only of the workplace where the component is placed; flat (1 and 2 tasks per component) and nested products; nested-product defects are listed known findings (qualified tags).", "DESIGN.md §4 C13"),
    "C14": sim_claim("Unit: BaseComponent.check_state over up to 3 consecutive arbitrary monotone task-state vectors (symbolic states, n <= 3 tasks). Integration: the same relation between component and task "
                     "states at every phase and in the logs on product members incl. components without tasks.", "DESIGN.md §4 C14"),
    "C15": sim_claim("Harness: twin members, pause step k symbolic (0..makespan and beyond), resume with state/log initialisation off vs one uninterrupted run: identical dumps; same through write/read JSON "
                     "for saved-settings members (in-memory JSON contract stub; replays use real files).", "DESIGN.md §4 C15"),
    "C16": sim_claim("Harness: members (workflow, facility/product, sub-project task never/already configured) at four stages (never simulated, paused at symbolic k, forward, backward): export(read(write)) equal "
                     "value-for-value, every cross reference is an object of the restored project, re-simulation equal, writing never raises; injectivity query per constructor parameter (list from "
                     "inspect.signature of the current source): two values must give different exports. Unsaved parameters are listed known findings.", "DESIGN.md §4 C16"),
    "C17": sim_claim("Harness: backward_simulate with both flags, symbolic due times/work, and an exception injected at a symbolic step and each of the four phases; oracle: dependency and workplace link lists are the "
                     "same objects in the same order, no helper task left, forward simulate afterwards equals a twin's, FS order in (reversed) logs, log lengths.", "DESIGN.md §4 C17"),
    "C18": sim_claim("Harness: simulate, then sequences of insert_absence_time_list(L)/remove_absence_time_list() with symbolic index lists (step 0, duplicates, beyond the end); oracle: no exception, every log found by "
                     "reflection has project.time entries, inserted steps are no-work zero-cost steps (positions recomputed independently), insert+remove restores the dump.", "DESIGN.md §4 C18"),
    "C19": (
        "Bounded symbolic model checking (CrossHair) of the real Gantt encoders, extract_* queries, gantt row builders and set_last_datetime: "
        "state logs are solver variables (every log of length <= 5 quick / 7 thorough over the state codes the simulator writes), "
        "margins, requested times and dates symbolic; each obligation must be exhausted ('Confirmed over all paths'). "
        "Unit level is right because the property is stated for arbitrary logs.",
        "CrossHair's model of Python semantics (real-arithmetic floats, exact on the dyadic inputs used), z3, the oracle (direct maximal-run computation) in props/c19.py; "
        "sampled witnesses and every counterexample are re-run on plain CPython.",
        "DESIGN.md §4 C19",
    ),
    "C20": sim_claim("Harness: sub-project simulated with symbolic work and absence steps, saved, BaseSubProjectTask configured from the file with/without absence removal, unit times related (12 unit pairs), parent "
                     "simulated with symbolic predecessor work; oracle: work amount = duration, WORKING steps = ceil(D*sub/parent) consecutive, starts when gates open, no worker; refused for unsuccessful sources.", "DESIGN.md §4 C20"),
}
NOT_YET = "check not built yet in this round (work in progress; technique applies, see DESIGN.md §4)"


def main():
    props = [json.loads(l) for l in open(os.path.join(V, "properties.jsonl"))]
    extra_na = {}
    na_file = os.path.join(V, "tools", "not_applicable.json")
    if os.path.exists(na_file):
        extra_na = json.load(open(na_file))
    checks = []
    na = []
    for p in props:
        pid = p["id"]
        if pid in CLAIMS:
            text, note, ref = CLAIMS[pid]
            checks.append({
                "property_id": pid,
                "quick_cmd": "./vcheck %s quick" % pid,
                "thorough_cmd": "./vcheck %s thorough" % pid,
                "evidence_file": "/verif/evidence/%s.json" % pid,
                "replay_cmd_template": "./vcheck --replay {path}",
                "engine": "vcheck",
                "level_claimed": {"category": "model_checking", "text": text, "design_ref": ref},
                "level_note": note,
                "technique": TECH,
            })
        else:
            na.append({"property_id": pid, "reason": extra_na.get(pid, NOT_YET)})
    man = {
        "version": 1,
        "setup_cmd": "./setup.sh",
        "hooks": {
            "guard": "PDESY_VERIF",
            "enable": "no source hooks are needed: the step observer wraps BaseProject._BaseProject__update/__record and BaseOrganization.add_labor_cost from the harness",
            "baseline_off_cmd": "cd /repo && /venv/bin/python -m pytest -ra -q -p no:cacheprovider --timeout=900 --continue-on-collection-errors",
            "source_commits": [],
            "add_only": True,
        },
        "engines": [{
            "name": "vcheck",
            "path": "/verif/vcheck",
            "serves_properties": sorted(CLAIMS),
            "kind_free_text": "zsym (engine/zsym.py): dynamic symbolic execution of /repo's pDESy source by z3-backed proxy numbers, depth-first exhaustion of the path tree; CrossHair 0.0.110 for leaf units; cube-and-conquer over 16 processes; concrete replay of counterexamples and sampled witnesses",
        }],
        "checks": checks,
        "not_applicable": na,
        "notes": "Every check decides its property by solver-based bounded symbolic execution of the real code; bounds, stubs and what lies outside are in each evidence file and DESIGN.md. "
                 "known_findings.json lists genuine defects (fixed / known).",
    }
    json.dump(man, open(os.path.join(V, "MANIFEST.json"), "w"), indent=1)
    try:
        import jsonschema
    except ImportError:
        print("jsonschema missing; written without validation")
        return 0
    jsonschema.validate(man, json.load(open("/root/.vp/MANIFEST.schema.json")))
    es = json.load(open("/root/.vp/EVIDENCE.schema.json"))
    bad = 0
    for c in checks:
        f = c["evidence_file"]
        if os.path.exists(f):
            try:
                jsonschema.validate(json.load(open(f)), es)
            except Exception as e:  # noqa
                print("EVIDENCE INVALID", f, str(e)[:300])
                bad += 1
    print("manifest ok: %d checks, %d not_applicable, %d bad evidence" % (len(checks), len(na), bad))
    return 1 if bad else 0


if __name__ == "__main__":
    sys.exit(main())
