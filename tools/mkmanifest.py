#!/usr/bin/env python3
"""Regenerate /verif/MANIFEST.json from the table below and validate it (and evidence files) against the schemas."""
import json
import os
import sys

V = os.path.dirname(os.path.dirname(os.path.abspath(__file__)))
TECH = "bounded symbolic execution of the real Python source (CrossHair) with z3 deciding every branch; counterexamples replayed on the real code"

# property -> (level text, level note, design ref); a property absent here is listed under not_applicable
CLAIMS = {
    "C19": (
        "Bounded symbolic model checking of the real Gantt encoders, extract_* queries, gantt row builders and set_last_datetime: "
        "state logs are solver variables (every log of length <= 5 quick / 7 thorough over the state codes the simulator writes), "
        "margins, requested times and dates symbolic; each obligation must be exhausted ('Confirmed over all paths'). "
        "Unit level is right because the property is stated for arbitrary logs.",
        "CrossHair's model of Python semantics (real-arithmetic floats, exact on the dyadic inputs used), z3, the oracle (direct maximal-run computation) in props/c19.py; "
        "sampled witnesses and every counterexample are re-run on plain CPython.",
        "DESIGN.md §4 C19",
    ),
}
NOT_YET = "check not built yet in this round (work in progress; technique applies, see DESIGN.md §4)"


def main():
    props = [json.loads(l) for l in open(os.path.join(V, "properties.jsonl"))]
    extra_na = {}
    na_file = os.path.join(V, "tools", "not_applicable.json")
    if os.path.exists(na_file):
        extra_na = json.load(open(na_file))
    checks = []
    na = []
    for p in props:
        pid = p["id"]
        if pid in CLAIMS:
            text, note, ref = CLAIMS[pid]
            checks.append({
                "property_id": pid,
                "quick_cmd": "./vcheck %s quick" % pid,
                "thorough_cmd": "./vcheck %s thorough" % pid,
                "evidence_file": "/verif/evidence/%s.json" % pid,
                "replay_cmd_template": "./vcheck --replay {path}",
                "engine": "vcheck",
                "level_claimed": {"category": "model_checking", "text": text, "design_ref": ref},
                "level_note": note,
                "technique": TECH,
            })
        else:
            na.append({"property_id": pid, "reason": extra_na.get(pid, NOT_YET)})
    man = {
        "version": 1,
        "setup_cmd": "./setup.sh",
        "hooks": {
            "guard": "PDESY_VERIF",
            "enable": "no source hooks are needed: the step observer wraps BaseProject._BaseProject__update/__record and BaseOrganization.add_labor_cost from the harness",
            "baseline_off_cmd": "cd /repo && /venv/bin/python -m pytest -ra -q -p no:cacheprovider --timeout=900 --continue-on-collection-errors",
            "source_commits": [],
            "add_only": True,
        },
        "engines": [{
            "name": "vcheck",
            "path": "/verif/vcheck",
            "serves_properties": sorted(CLAIMS),
            "kind_free_text": "CrossHair 0.0.110 symbolic execution of /repo's pDESy source + z3 5.1; cube-and-conquer over 16 processes; concrete replay of counterexamples and sampled witnesses",
        }],
        "checks": checks,
        "not_applicable": na,
        "notes": "Every check decides its property by solver-based bounded symbolic execution of the real code; bounds, stubs and what lies outside are in each evidence file and DESIGN.md. "
                 "known_findings.json lists genuine defects (fixed / known).",
    }
    json.dump(man, open(os.path.join(V, "MANIFEST.json"), "w"), indent=1)
    try:
        import jsonschema
    except ImportError:
        print("jsonschema missing; written without validation")
        return 0
    jsonschema.validate(man, json.load(open("/root/.vp/MANIFEST.schema.json")))
    es = json.load(open("/root/.vp/EVIDENCE.schema.json"))
    bad = 0
    for c in checks:
        f = c["evidence_file"]
        if os.path.exists(f):
            try:
                jsonschema.validate(json.load(open(f)), es)
            except Exception as e:  # noqa
                print("EVIDENCE INVALID", f, str(e)[:300])
                bad += 1
    print("manifest ok: %d checks, %d not_applicable, %d bad evidence" % (len(checks), len(na), bad))
    return 1 if bad else 0


if __name__ == "__main__":
    sys.exit(main())
