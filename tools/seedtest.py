#!/usr/bin/env python3
"""Confirm a seeded change and run checks against it.

  tools/seedtest.py confirm <src_dir> <seed_id> <property>     copy into /verif/seeded/<seed_id>/ after confirming in a scratch worktree:
                                                               patch applies, test suite passes with it, demo fails with it and passes without
  tools/seedtest.py run <seed_id> [<Cxx> ...] [--tier quick]   apply the patch to /repo, run the given checks (default: the seed's property), revert /repo,
                                                               restore the evidence files, record the outcome in meta.json
"""
import json
import os
import shutil
import subprocess
import sys
import time

V = os.path.dirname(os.path.dirname(os.path.abspath(__file__)))
REPO = "/repo"


def sh(cmd, **kw):
    return subprocess.run(cmd, shell=True, capture_output=True, text=True, **kw)


def confirm(src, sid, prop):
    dst = os.path.join(V, "seeded", sid)
    wt = "/tmp/sv-%s" % sid
    sh("git -C %s worktree remove --force %s" % (REPO, wt))
    r = sh("git -C %s worktree add -q --detach %s HEAD" % (REPO, wt))
    assert r.returncode == 0, r.stderr
    meta = {"seed": sid, "property": prop, "confirmed_at_repo_commit": sh("git -C %s rev-parse --short HEAD" % REPO).stdout.strip()}
    try:
        patch = os.path.join(src, "patch.diff")
        r = sh("git -C %s apply --check %s && git -C %s apply %s" % (wt, patch, wt, patch))
        meta["patch_applies"] = r.returncode == 0
        if r.returncode != 0:
            meta["error"] = r.stderr[-500:]
            return meta, None
        r = sh("cd %s && /venv/bin/python -m pytest -q -p no:cacheprovider --timeout=900 2>&1 | tail -3" % wt)
        meta["tests_with_change"] = r.stdout.strip().splitlines()[-1] if r.stdout.strip() else ""
        meta["tests_pass_with_change"] = "176 passed" in r.stdout and "failed" not in r.stdout
        env = dict(os.environ, PDESY_ROOT=wt)
        r = sh("cd /tmp && timeout 300 /venv/bin/python %s" % os.path.join(src, "demo.py"), env=env)
        meta["demo_with_change_exit"] = r.returncode
        meta["demo_with_change_output"] = (r.stdout + r.stderr)[-600:]
        sh("git -C %s checkout -- ." % wt)
        r = sh("cd /tmp && timeout 300 /venv/bin/python %s" % os.path.join(src, "demo.py"), env=env)
        meta["demo_without_change_exit"] = r.returncode
        ok = meta["tests_pass_with_change"] and meta["demo_with_change_exit"] == 1 and meta["demo_without_change_exit"] == 0
        meta["confirmed"] = ok
        if ok:
            os.makedirs(dst, exist_ok=True)
            for f in ("patch.diff", "demo.py", "notes.md"):
                if os.path.exists(os.path.join(src, f)):
                    shutil.copy(os.path.join(src, f), os.path.join(dst, f))
            notes = open(os.path.join(dst, "notes.md")).read() if os.path.exists(os.path.join(dst, "notes.md")) else ""
            meta["needs_to_manifest"] = notes[:1500]
            meta["what_i_ran"] = ["git worktree add (scratch) ; git apply patch.diff ; pytest (176 passed) ; demo.py -> exit 1 ; git checkout ; demo.py -> exit 0 ; worktree removed"]
            json.dump(meta, open(os.path.join(dst, "meta.json"), "w"), indent=1)
        return meta, dst if ok else None
    finally:
        sh("git -C %s worktree remove --force %s" % (REPO, wt))


def run(sid, props, tier, worktree=None):
    """worktree=None: apply to /repo itself and revert.  worktree=<dir>: apply in that scratch worktree of /repo's HEAD and point the
    check at it with VERIF_DEV_REPO (same code path; lets two seeds be tried at a time while /repo stays untouched)."""
    global REPO
    dst = os.path.join(V, "seeded", sid)
    meta = json.load(open(os.path.join(dst, "meta.json")))
    props = props or [meta["property"]]
    env_prefix = ""
    if worktree:
        head = sh("git -C /repo rev-parse HEAD").stdout.strip()
        assert sh("git -C %s rev-parse HEAD" % worktree).stdout.strip() == head, "scratch worktree is not at /repo's HEAD"
        REPO = worktree
        env_prefix = "VERIF_DEV_REPO=%s VERIF_NPROC=%s " % (worktree, os.environ.get("VERIF_NPROC", "8"))
        meta["ran_in"] = "scratch worktree of /repo at %s (VERIF_DEV_REPO)" % head[:7]
    assert sh("git -C %s status --porcelain --untracked-files=no" % REPO).stdout.strip() == "", "%s not clean" % REPO
    evdir = os.path.join(V, "evidence")
    bak = "/tmp/evidence-bak-%d" % os.getpid()
    shutil.copytree(evdir, bak)
    res = meta.setdefault("checks", {})
    try:
        r = sh("git -C %s apply %s" % (REPO, os.path.join(dst, "patch.diff")))
        assert r.returncode == 0, r.stderr
        for p in props:
            t0 = time.time()
            r = sh("cd %s && %s./vcheck %s %s" % (V, env_prefix, p, tier))
            lines = r.stdout.splitlines()
            viol = [l for l in lines if l.startswith("VIOLATION")]
            clauses = sorted({c for l in lines if l.startswith("  obligation=") for c in l.split("clauses=")[1].split(" input=")[0].strip("[]").replace("'", "").split(", ")})
            res["%s:%s" % (p, tier)] = {"exit": r.returncode, "violations": len(viol), "clauses": clauses[:12], "wall_s": round(time.time() - t0, 1),
                                       "summary": lines[-1] if lines else "", "harness_errors": [l[:300] for l in lines if l.startswith("HARNESS-ERROR")][:3]}
            print(sid, p, tier, "exit", r.returncode, "violations", len(viol), clauses[:6])
    finally:
        sh("git -C %s checkout -- ." % REPO)
        shutil.rmtree(evdir)
        shutil.copytree(bak, evdir)
        shutil.rmtree(bak)
        sh("rm -rf %s/replays" % V)
    meta["caught_by"] = sorted(k for k, v in res.items() if v["exit"] == 1)
    json.dump(meta, open(os.path.join(dst, "meta.json"), "w"), indent=1)


if __name__ == "__main__":
    if sys.argv[1] == "confirm":
        m, d = confirm(sys.argv[2], sys.argv[3], sys.argv[4])
        print(json.dumps({k: v for k, v in m.items() if k not in ("needs_to_manifest",)}, indent=1)[:1500])
        sys.exit(0 if d else 1)
    elif sys.argv[1] == "run":
        args = sys.argv[2:]
        tier = "quick"
        if "--tier" in args:
            i = args.index("--tier")
            tier = args[i + 1]
            del args[i:i + 2]
        wt = None
        if "--worktree" in args:
            i = args.index("--worktree")
            wt = args[i + 1]
            del args[i:i + 2]
        run(args[0], args[1:], tier, wt)
