#!/bin/sh
# tools/runall.sh <quick|thorough> [props...]   run the checks one after the other, print one summary line each
T=${1:-quick}; shift
cd /verif
PROPS=${@:-C01 C02 C03 C04 C05 C06 C07 C08 C09 C10 C11 C12 C13 C14 C15 C16 C17 C18 C19 C20}
for P in $PROPS; do
  /usr/bin/time -f "$P $T wall=%es" ./vcheck $P $T 2>&1 | grep -v "^KNOWN\|^phases\|^  obligation" | tail -4
done
