#!/bin/sh
# round 2: seeds under /tmp/w2-Cxx/_seed/mN -> seeded/Cxx-r2mN
cd /verif
for P in "$@"; do
for m in m1 m2; do
  src=/tmp/w2-$P/_seed/$m
  [ -f $src/patch.diff ] || { echo "$P-r2$m: no patch"; continue; }
  if .venv/bin/python tools/seedtest.py confirm $src $P-r2$m $P > /tmp/seed-$P-r2$m.confirm.log 2>&1; then
    .venv/bin/python tools/seedtest.py run $P-r2$m $P 2>&1 | tail -1
  else
    echo "$P-r2$m: NOT CONFIRMED"; grep -E '"(patch_applies|tests_pass_with_change|demo_with_change_exit|demo_without_change_exit)"' /tmp/seed-$P-r2$m.confirm.log
  fi
done
done
