#!/usr/bin/env python3
"""Regenerate seeded/README.md from seeded/*/meta.json."""
import glob, json, os
V = os.path.dirname(os.path.dirname(os.path.abspath(__file__)))
rows = []
for f in sorted(glob.glob(os.path.join(V, "seeded", "*", "meta.json"))):
    m = json.load(open(f))
    notes = (m.get("needs_to_manifest") or "").strip().splitlines()
    first = next((l.strip("# ").strip() for l in notes if l.strip()), "")
    checks = m.get("checks", {})
    caught = ", ".join("%s (%s)" % (k, "; ".join(v["clauses"][:3])) for k, v in checks.items() if v["exit"] == 1) or "-"
    missed = ", ".join(k for k, v in checks.items() if v["exit"] == 0) or "-"
    other = ", ".join("%s exit %s" % (k, v["exit"]) for k, v in checks.items() if v["exit"] not in (0, 1)) or ""
    if m.get("status_after_fix"):
        other += " (" + m["status_after_fix"] + ")"
    rows.append("| %s | %s | %s | %s | %s %s |" % (m["seed"], m["property"], first[:160].replace("|", "/"), caught, missed, other))
out = ["# Seeded changes", "",
       "Each directory holds `patch.diff` (never committed to /repo), `demo.py` (fails with the change, passes without), `notes.md` (the sub-agent's description) and `meta.json`",
       "(what was confirmed in a scratch worktree and which checks were run against the change: `tools/seedtest.py`).", "",
       "| seed | property | change (first line of the author's notes) | caught by (clauses) | run but not caught |", "|---|---|---|---|---|"] + rows
open(os.path.join(V, "seeded", "README.md"), "w").write("\n".join(out) + "\n")
print("\n".join(out[-len(rows):]))
