#!/bin/sh
# Build the overlay venv used by every check (offline, from files on disk only).
# /verif/.venv = venv of /venv's interpreter + /venv's site-packages (numpy, ...) + crosshair-tool from the wheelhouse.
set -e
cd "$(dirname "$0")"
V=.venv
LOCK=.venv.lock
exec 9>"$LOCK"
flock 9
if [ -x "$V/bin/python" ] && "$V/bin/python" -c "import crosshair, z3, numpy" 2>/dev/null; then
  exit 0
fi
rm -rf "$V"
/venv/bin/python -m venv "$V"
SP=$("$V/bin/python" -c "import sysconfig; print(sysconfig.get_paths()['purelib'])")
printf "import site; site.addsitedir('/venv/lib/python3.12/site-packages')\n" > "$SP/zz_venv_overlay.pth"
PIP_NO_INDEX=1 "$V/bin/python" -m pip install -q --no-index --find-links /opt/veriftools/wheels crosshair-tool >/dev/null
"$V/bin/python" -c "import crosshair, z3, numpy; print('venv ok', z3.get_version_string())"
