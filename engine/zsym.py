"""zsym - dynamic symbolic execution of the real pDESy code with z3, by operator overloading.

The harness hands the real pDESy functions *proxy numbers* (SymNum over z3 Int/Real terms, SymBool over z3 Bool
terms).  pDESy's own source runs natively; every arithmetic operation builds a z3 term, and every time the code
branches on a proxy (`if rem < 1e-10`, `x in list`, `sorted`, `max`, ...) Python calls SymBool.__bool__, which asks
the engine to *decide*:

  * the side satisfied by the current model of the path condition is feasible for free,
  * one z3 query decides whether the other side is feasible too; if it is, the alternative path is scheduled,
  * the taken side is asserted into the path condition.

Paths are explored depth-first by re-execution with a decision prefix until the tree is exhausted: the verdict
"all paths, oracle true" is z3's verdict over every value of the symbolic inputs within their ranges, not a sample.
Numbers: mathematical integers for Python ints, z3 reals for floats.  Concrete float constants are converted to the
exact rational value of the IEEE double, so on the stated numeric domain (small integers and dyadic rationals) the
real model is bit-exact; every counterexample and sampled witnesses are replayed on plain CPython floats.
Where the code needs a concrete value (index, hash, int(), str()) the proxy is *concretised*: the engine forks over
the feasible values, which stays exhaustive because such values have tiny ranges.
"""
import time
from fractions import Fraction

import z3


class ZControl(BaseException):
    """Engine control flow (never caught by `except Exception`)."""


class ZUnknown(ZControl):
    pass


class ZNonDeterministic(ZControl):
    pass


class ZTimeout(ZControl):
    pass


class ZInfeasiblePrefix(ZControl):
    """A scheduled alternative turned out to be infeasible (the solver's earlier `sat` was refuted twice)."""


_E = None  # current engine


def engine():
    return _E


def _num_to_z3(x):
    """Concrete Python number -> exact z3 numeral (None when not representable: inf/nan)."""
    if isinstance(x, bool):
        return z3.IntVal(1 if x else 0)
    if isinstance(x, int):
        return z3.IntVal(int(x))
    if isinstance(x, float):
        if x != x or x in (float("inf"), float("-inf")):
            return None
        if x == int(x) and abs(x) < 2**53:
            return z3.RealVal(int(x))
        fr = Fraction(x)  # exact value of the double
        return z3.RealVal("%d/%d" % (fr.numerator, fr.denominator))
    if isinstance(x, Fraction):
        return z3.RealVal("%d/%d" % (x.numerator, x.denominator))
    return None


def _is_num(x):
    return isinstance(x, (int, float, Fraction)) and not isinstance(x, SymNum)


class SymBool:
    __slots__ = ("e",)

    def __init__(self, e):
        self.e = e

    def __bool__(self):
        return _E.decide(self.e)

    def _asnum(self):
        return SymNum(z3.If(self.e, z3.IntVal(1), z3.IntVal(0)))

    def __add__(self, o):
        return self._asnum() + o

    def __radd__(self, o):
        return o + self._asnum()

    def __int__(self):
        return 1 if bool(self) else 0

    __index__ = __int__

    def __eq__(self, o):
        if isinstance(o, SymBool):
            return SymBool(self.e == o.e)
        if isinstance(o, bool):
            return SymBool(self.e if o else z3.Not(self.e))
        return self._asnum() == o

    def __ne__(self, o):
        r = self.__eq__(o)
        return SymBool(z3.Not(r.e)) if isinstance(r, SymBool) else (not r)

    def __and__(self, o):
        if isinstance(o, SymBool):
            return SymBool(z3.And(self.e, o.e))
        return self if o else False

    __rand__ = __and__

    def __or__(self, o):
        if isinstance(o, SymBool):
            return SymBool(z3.Or(self.e, o.e))
        return True if o else self

    __ror__ = __or__

    def __invert__(self):
        return SymBool(z3.Not(self.e))

    def __hash__(self):
        return hash(bool(self))

    def __repr__(self):
        return "<SymBool>"


def _coerce(o):
    """other operand -> z3 term, or None (not a number), or 'inf'/'-inf'/'nan'."""
    if isinstance(o, SymNum):
        return o.e
    if isinstance(o, SymBool):
        return o._asnum().e
    if isinstance(o, (int, float, Fraction)):
        if isinstance(o, float):
            if o != o:
                return "nan"
            if o == float("inf"):
                return "inf"
            if o == float("-inf"):
                return "-inf"
        return _num_to_z3(o)
    return None


def _both(a, b):
    """Bring two z3 arithmetic terms to a common sort."""
    if a.sort() == b.sort():
        return a, b
    if z3.is_int(a):
        a = z3.ToReal(a)
    if z3.is_int(b):
        b = z3.ToReal(b)
    return a, b


class SymNum:
    """Proxy for a Python int (z3 Int sort) or float (z3 Real sort)."""

    __slots__ = ("e",)

    def __init__(self, e):
        self.e = e

    # ---- arithmetic
    def _bin(self, o, f, rev=False):
        c = _coerce(o)
        if c is None:
            return NotImplemented
        if isinstance(c, str):
            # arithmetic with inf/nan: concretise self (outside the numeric claim, but stay sound)
            v = _E.concretize(self.e)
            return f(o, v) if rev else f(v, o)
        a, b = _both(self.e, c)
        if rev:
            a, b = b, a
        return SymNum(f(a, b))

    def __add__(self, o):
        return self._bin(o, lambda a, b: a + b)

    def __radd__(self, o):
        return self._bin(o, lambda a, b: a + b, True)

    def __sub__(self, o):
        return self._bin(o, lambda a, b: a - b)

    def __rsub__(self, o):
        return self._bin(o, lambda a, b: a - b, True)

    @staticmethod
    def _linear_mul(a, b):
        """a * b kept linear: when both factors are non-constant one of them is concretised (case split over its
        tiny range).  Nonlinear real/integer arithmetic is where SMT solvers are incomplete - z3's incremental mode was
        measured to answer `sat` on such a query that a fresh solver refutes - so no product of two solver variables
        ever reaches the solver."""
        if not isinstance(a, z3.ExprRef) or not isinstance(b, z3.ExprRef):
            return a * b
        sa, sb = z3.simplify(a), z3.simplify(b)
        ca = z3.is_int_value(sa) or z3.is_rational_value(sa)
        cb = z3.is_int_value(sb) or z3.is_rational_value(sb)
        if ca or cb:
            return a * b
        _E.stats["nonlinear_splits"] = _E.stats.get("nonlinear_splits", 0) + 1
        v = _E.concretize(b)
        return a * _num_to_z3(v)

    def __mul__(self, o):
        return self._bin(o, self._linear_mul)

    def __rmul__(self, o):
        return self._bin(o, self._linear_mul, True)

    def _truediv(self, a, b):
        if not isinstance(a, z3.ExprRef):
            return a / b
        if z3.is_int(a):
            a = z3.ToReal(a)
        if z3.is_int(b):
            b = z3.ToReal(b)
        bs = z3.simplify(b)
        if z3.is_rational_value(bs):
            if bs.numerator_as_long() == 0:
                raise ZeroDivisionError("float division by zero")
            return a / b
        # non-constant divisor: concretise it (keeps the arithmetic linear)
        v = _E.concretize(b)
        if v == 0:
            raise ZeroDivisionError("float division by zero")
        return a / z3.RealVal(str(Fraction(v)))

    def __truediv__(self, o):
        return self._bin(o, self._truediv)

    def __rtruediv__(self, o):
        return self._bin(o, self._truediv, True)

    def _floordiv(self, a, b):
        if z3.is_int(a) and z3.is_int(b):
            bs = z3.simplify(b)
            if z3.is_int_value(bs) and bs.as_long() > 0:
                return a / b  # z3 integer division = floor for positive divisors
        # general case: concretise (rare)
        av, bv = _E.concretize(a), _E.concretize(b)
        return _num_to_z3(av // bv)

    def __floordiv__(self, o):
        return self._bin(o, self._floordiv)

    def __rfloordiv__(self, o):
        return self._bin(o, self._floordiv, True)

    def _mod(self, a, b):
        if z3.is_int(a) and z3.is_int(b):
            bs = z3.simplify(b)
            if z3.is_int_value(bs) and bs.as_long() > 0:
                return a % b
        av, bv = _E.concretize(a), _E.concretize(b)
        return _num_to_z3(av % bv)

    def __mod__(self, o):
        return self._bin(o, self._mod)

    def __rmod__(self, o):
        return self._bin(o, self._mod, True)

    def __neg__(self):
        return SymNum(-self.e)

    def __pos__(self):
        return self

    def __abs__(self):
        return SymNum(z3.If(self.e >= 0, self.e, -self.e))

    # ---- comparisons
    def _cmp(self, o, f, inf_res, ninf_res):
        c = _coerce(o)
        if c is None:
            return NotImplemented
        if isinstance(c, str):
            if c == "nan":
                return False
            return inf_res if c == "inf" else ninf_res
        a, b = _both(self.e, c)
        return SymBool(f(a, b))

    def __lt__(self, o):
        return self._cmp(o, lambda a, b: a < b, True, False)

    def __le__(self, o):
        return self._cmp(o, lambda a, b: a <= b, True, False)

    def __gt__(self, o):
        return self._cmp(o, lambda a, b: a > b, False, True)

    def __ge__(self, o):
        return self._cmp(o, lambda a, b: a >= b, False, True)

    def __eq__(self, o):
        if o is None:
            return False
        r = self._cmp(o, lambda a, b: a == b, False, False)
        return False if r is NotImplemented else r

    def __ne__(self, o):
        if o is None:
            return True
        r = self._cmp(o, lambda a, b: a != b, True, True)
        return True if r is NotImplemented else r

    def __bool__(self):
        return _E.decide(self.e != 0)

    # ---- concretisation points
    def __int__(self):
        v = _E.concretize(self.e)
        return int(v)

    def __index__(self):
        v = _E.concretize(self.e)
        if v != int(v):
            raise TypeError("non-integer used as index")
        return int(v)

    def __float__(self):
        return float(_E.concretize(self.e))

    def __hash__(self):
        return hash(_E.concretize(self.e))

    def __round__(self, n=None):
        return round(_E.concretize(self.e), n) if n is not None else round(_E.concretize(self.e))

    def __str__(self):
        return str(_E.concretize(self.e))

    def __repr__(self):
        return "<SymNum %s>" % (self.e.sexpr()[:60],)

    def __format__(self, spec):
        return format(_E.concretize(self.e), spec)


def is_sym(x):
    return isinstance(x, (SymNum, SymBool))


class Engine:
    def __init__(self, params, pre=None, timeout=60.0, query_timeout_ms=20000):
        self.names = [p[0] for p in params]
        self.vars = {p[0]: z3.Int(p[0]) for p in params}
        self.base = []
        for name, lo, hi in params:
            self.base.append(self.vars[name] >= lo)
            self.base.append(self.vars[name] <= hi)
        if pre:
            self.base.append(eval(pre, {"__builtins__": {}}, dict(self.vars, And=z3.And, Or=z3.Or, Not=z3.Not)))
        self.timeout = timeout
        self.qt = query_timeout_ms
        self.stats = {"queries": 0, "solver_time_s": 0.0, "sat": 0, "unsat": 0, "unknown": 0, "decisions": 0, "forced": 0, "concretizations": 0}
        self.solver = None
        self.model = None
        self.trace = None
        self.prefix = None
        self.worklist = []
        self.paths = 0

    # ---- solver plumbing
    def _check(self, *assumptions):
        t = time.perf_counter()
        r = self.solver.check(*assumptions)
        self.stats["queries"] += 1
        self.stats["solver_time_s"] += time.perf_counter() - t
        self.stats[str(r)] += 1
        return r

    def symvals(self):
        return {n: SymNum(v) for n, v in self.vars.items()}

    def start_path(self, prefix):
        self.solver = z3.Solver()
        self.solver.set("timeout", self.qt)
        for c in self.base:
            self.solver.add(c)
        self.trace = []
        self.prefix = prefix
        self.model = None
        if not prefix:
            r = self._check()
            if r == z3.unsat:
                return False
            if r != z3.sat:
                raise ZUnknown("unknown on base constraints")
            self.model = self.solver.model()
        return True

    def decide(self, cond, tag=None):
        if time.time() > self.deadline:
            raise ZTimeout()
        h = cond.hash()  # structural hash of the term as the program built it (simplify may reorder arguments)
        cond = z3.simplify(cond)
        if z3.is_true(cond):
            return True
        if z3.is_false(cond):
            return False
        i = len(self.trace)
        if i < len(self.prefix):
            b, ph, _ = self.prefix[i]
            if ph != h:
                raise ZNonDeterministic("decision %d differs between executions: now %s" % (i, cond.sexpr()[:200]))
            self.solver.add(cond if b else z3.Not(cond))
            self.trace.append((b, h, tag))
            if i == len(self.prefix) - 1:
                r = self._check()
                if r != z3.sat:
                    # second opinion from a fresh, non-incremental solver over the same assertions
                    fresh = z3.Solver()
                    fresh.set("timeout", self.qt)
                    for a_ in self.solver.assertions():
                        fresh.add(a_)
                    r2 = fresh.check()
                    self.stats["solver_disagreements"] = self.stats.get("solver_disagreements", 0) + 1
                    if r2 == z3.sat:
                        self.model = fresh.model()
                        return b
                    if r2 == z3.unsat and r == z3.unsat:
                        # the alternative was scheduled on a `sat` answer that two later checks refute: it does not exist
                        raise ZInfeasiblePrefix()
                    raise ZUnknown("scheduled prefix: %s / %s" % (r, r2))
                self.model = self.solver.model()
            return b
        mv = z3.is_true(self.model.eval(cond, model_completion=True))
        other = z3.Not(cond) if mv else cond
        r = self._check(other)
        self.stats["decisions"] += 1
        if r == z3.sat:
            self.worklist.append(self.trace + [(not mv, h, tag)])
        elif r == z3.unsat:
            self.stats["forced"] += 1
        else:
            raise ZUnknown("solver answered unknown on a branch condition")
        self.solver.add(cond if mv else z3.Not(cond))
        self.trace.append((mv, h, tag))
        return mv

    def concretize(self, e):
        """Concrete Python value of term e on this path (forks over the feasible values)."""
        es = z3.simplify(e)
        v = _z3_value(es)
        if v is not None:
            return v
        self.stats["concretizations"] += 1
        while True:
            i = len(self.trace)
            if i < len(self.prefix) and self.prefix[i][2] is not None:
                # replaying: the value tried at this point is part of the recorded decision
                vs = self.prefix[i][2]
                mv = z3.IntVal(int(vs)) if z3.is_int(es) else z3.RealVal(vs)
            else:
                mv = self.model.eval(es, model_completion=True)
            pv = _z3_value(mv)
            if pv is None:
                raise ZUnknown("cannot concretise %s" % es.sexpr()[:80])
            vs = str(mv.as_long()) if z3.is_int_value(mv) else "%d/%d" % (mv.numerator_as_long(), mv.denominator_as_long())
            if self.decide(es == mv, tag=vs):
                return pv

    def current_model(self):
        """Concrete argument values satisfying the current path condition."""
        out = {}
        for n, v in self.vars.items():
            out[n] = self.model.eval(v, model_completion=True).as_long()
        return out

    # ---- exploration
    def explore(self, fn, on_path_end=None):
        """Run fn(symvals) on every feasible path.  fn returns True (oracle held) / False.
        Returns 'exhausted' | 'failed' | 'timeout' | 'unknown' | 'pre_unsat' | 'nondeterministic'."""
        global _E
        self.deadline = time.time() + self.timeout
        self.worklist = [[]]
        _E = self
        try:
            while self.worklist:
                if time.time() > self.deadline:
                    return "timeout"
                prefix = self.worklist.pop()
                try:
                    if not self.start_path(prefix):
                        return "pre_unsat"
                    ok = fn(self.symvals())
                    if len(self.trace) < len(self.prefix):
                        raise ZNonDeterministic("path ended before its scheduled prefix")
                except ZInfeasiblePrefix:
                    self.stats["discarded_prefixes"] = self.stats.get("discarded_prefixes", 0) + 1
                    continue
                except ZTimeout:
                    return "timeout"
                except ZUnknown as e:
                    self.last_error = str(e)
                    return "unknown"
                except ZNonDeterministic as e:
                    self.last_error = str(e)
                    return "nondeterministic"
                self.paths += 1
                if not ok:
                    return "failed"
            return "exhausted"
        finally:
            _E = None


def _z3_value(t):
    if z3.is_int_value(t):
        return t.as_long()
    if z3.is_rational_value(t):
        n, d = t.numerator_as_long(), t.denominator_as_long()
        if d == 1:
            return float(n)
        fr = Fraction(n, d)
        f = float(fr)
        return f
    if z3.is_true(t):
        return True
    if z3.is_false(t):
        return False
    return None


def realize(x):
    """Deep concretisation of harness data (used for ctx.c)."""
    if isinstance(x, SymNum):
        return _E.concretize(x.e)
    if isinstance(x, SymBool):
        return bool(x)
    if isinstance(x, list):
        return [realize(i) for i in x]
    if isinstance(x, tuple):
        return tuple(realize(i) for i in x)
    if isinstance(x, dict):
        return {realize(k): realize(v) for k, v in x.items()}
    return x
