"""Harness-side helpers: the per-path context shared by symbolic runs and concrete replays."""
import hashlib


class ApiError(Exception):
    """Raised by harness code when the API under test raised (carries the tag)."""


class Ctx:
    """Per-path context.

    symbolic=True : running under CrossHair (stubs installed, proxies flow through pDESy)
    symbolic=False: concrete replay on the real code (real numpy/json/sets)
    Everything stored here must be concrete (plain str/int/tuple) on the current path.
    """

    def __init__(self, symbolic, engine="crosshair"):
        self.symbolic = symbolic
        self.engine = engine
        self.covers = set()
        self.sig = None  # concrete, hashable: what makes this path's trace distinct
        self.nontrivial = False
        self.fails = []
        self.notes = {}
        self.aborted = None

    def c(self, x):
        """Concrete value of x on this path (forks over the remaining feasible values when symbolic)."""
        if not self.symbolic:
            return x
        if self.engine == "zsym":
            from .zsym import realize

            return realize(x)
        from crosshair.core import deep_realize

        return deep_realize(x)

    def cover(self, goal):
        self.covers.add(str(goal))

    def fail(self, tag):
        tag = str(tag)
        if tag not in self.fails:
            self.fails.append(tag)

    def call(self, fn, *a, **k):
        """Call the API under test; returns (True, result) or (False, exception)."""
        try:
            return True, fn(*a, **k)
        except Exception as e:  # noqa: BLE001 - CrossHair control flow is BaseException
            if type(e).__name__ == "NotDeterministic":
                raise
            tb = e.__traceback__
            last = None
            while tb is not None:
                last = tb.tb_frame.f_code.co_filename
                tb = tb.tb_next
            if last is not None and last.endswith("/model/observe.py") and type(e).__name__ != "Injected":
                raise  # raised by the observer's own wrappers, not by the code under test: a harness error, never a verdict
            return False, e


def sig_hash(sig):
    return hashlib.md5(repr(sig).encode()).hexdigest()[:12]


def exc_tag(e):
    """Stable, specific tag of an exception: type + innermost pDESy function."""
    import traceback

    tb = traceback.extract_tb(e.__traceback__)
    where = "?"
    for fr in tb:
        if "/pDESy/" in fr.filename:
            where = "%s:%s" % (fr.filename.rsplit("/", 1)[-1], fr.name)
    return "%s@%s" % (type(e).__name__, where)
