"""CrossHair / z3 configuration shared by every obligation (DESIGN §2.3)."""
import os
import sys
import time
import collections

# the checks decide /repo; VERIF_DEV_REPO exists only so that a seeded change can be tried in a scratch worktree while
# /repo is busy (development aid: the registered commands never set it, and the evidence records the tree analysed)
REPO = os.environ.get("VERIF_DEV_REPO", "/repo")

QSTATS = collections.Counter()
_installed = False


def force_repo_first():
    """The /venv site-packages holds a stale copy of pDESy: /repo must win (DESIGN §2.1)."""
    if REPO in sys.path:
        sys.path.remove(REPO)
    sys.path.insert(0, REPO)
    import pDESy  # noqa

    if not pDESy.__file__.startswith(REPO + "/"):
        raise RuntimeError("import shadow: pDESy imported from %s" % pDESy.__file__)
    # import every model module now (outside any traced path: plotly/scipy imports cost seconds under tracing)
    import importlib

    for m in ("base_project", "base_workflow", "base_task", "base_subproject_task", "base_product", "base_component",
              "base_organization", "base_team", "base_worker", "base_workplace", "base_facility", "base_priority_rule"):
        mod = importlib.import_module("pDESy.model." + m)
        if not mod.__file__.startswith(REPO + "/"):
            raise RuntimeError("import shadow: %s imported from %s" % (m, mod.__file__))


def configure():
    """Real-arithmetic float model; count every SMT query."""
    global _installed
    if _installed:
        return
    _installed = True
    import crosshair.libimpl.builtinslib as bl

    bl._PYTYPE_TO_WRAPPER_TYPE[float] = ((bl.RealBasedSymbolicFloat, 1.0),)
    import z3

    orig = z3.Solver.check

    def check(self, *a):
        t = time.perf_counter()
        r = orig(self, *a)
        QSTATS["queries"] += 1
        QSTATS["solver_time_us"] += int((time.perf_counter() - t) * 1e6)
        QSTATS["smt_" + str(r)] += 1
        return r

    z3.Solver.check = check
