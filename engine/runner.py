"""vcheck driver: expand a property into obligations, discharge them on all cores, replay, write evidence.

    python -m engine.runner <Cxx> <quick|thorough>
    python -m engine.runner --replay <file>

Exit 0: property held on everything explored (inconclusive obligations are listed, never counted as discharged)
Exit 1: `VIOLATION property=<id> replay=<path>` (counterexample reproduced on the real code, not a listed known finding)
Exit 2: HARNESS-ERROR (environment broken, harness bug, or a solver counterexample that does not reproduce)
"""
import collections
import hashlib
import importlib
import json
import multiprocessing as mp
import os
import subprocess
import sys
import tempfile
import time

from . import chconf

VERIF = os.path.dirname(os.path.dirname(os.path.abspath(__file__)))
NPROC = int(os.environ.get("VERIF_NPROC", "16"))
KNOWN_FILE = os.path.join(VERIF, "known_findings.json")


def _worker_entry(ob):
    from .worker import run_obligation

    try:
        return run_obligation(ob)
    except BaseException as e:  # noqa: BLE001
        import traceback

        return {
            "name": ob["name"], "verdict": "HARNESS_ERROR", "harness_error": traceback.format_exc()[-1500:],
            "paths": 0, "queries": 0, "solver_time_s": 0, "smt_sat": 0, "smt_unsat": 0, "smt_unknown": 0,
            "covers": {}, "sigs": [], "nontrivial_sigs": [], "samples": [], "cex": None, "known_seen": {},
            "wall_s": 0, "aborted_paths": 0, "fail_paths": 0, "prop": ob["prop"], "harness": ob["harness"],
            "cube": ob.get("cube", {}), "params": ob["params"], "messages": [repr(e)],
        }


def load_known(prop):
    if not os.path.exists(KNOWN_FILE):
        return []
    data = json.load(open(KNOWN_FILE))
    return [f for f in data.get("findings", []) if f.get("property") == prop and f.get("status") == "known"]


def replay_batch(cases):
    """Run cases concretely in a fresh interpreter without CrossHair; returns list of outcomes."""
    if not cases:
        return []
    with tempfile.TemporaryDirectory(prefix="vreplay") as d:
        fin, fout = os.path.join(d, "in.json"), os.path.join(d, "out.json")
        json.dump(cases, open(fin, "w"))
        r = subprocess.run(
            [sys.executable, "-m", "engine.replay", "--batch", fin, fout],
            cwd=VERIF, capture_output=True, text=True, timeout=900,
        )
        if r.returncode != 0 or not os.path.exists(fout):
            raise RuntimeError("replay subprocess failed: %s %s" % (r.stdout[-500:], r.stderr[-1500:]))
        return json.load(open(fout))


def main(argv):
    if len(argv) >= 2 and argv[0] == "--replay":
        from .replay import main as rmain

        return rmain(argv[1:])
    prop = argv[0].upper()
    tier = argv[1] if len(argv) > 1 else os.environ.get("VERIF_TIER", "quick")
    seed = int(os.environ.get("VERIF_SEED", "0") or 0)
    t0 = time.time()
    try:
        chconf.force_repo_first()
    except Exception as e:  # noqa: BLE001
        print("HARNESS-ERROR environment: %r" % e)
        return 2
    chconf.configure()
    import crosshair.core_and_libs  # noqa  (imported before fork so children start instantly)
    import numpy  # noqa

    mod = importlib.import_module("props." + prop.lower())
    obs = mod.obligations(tier, seed)
    only = os.environ.get("VERIF_DEV_ONLY")
    if only:
        # development aid: a subset of the obligations (never set by a registered command; missing cover goals are then expected)
        import re

        obs = [ob for ob in obs if re.search(only, ob["name"])]
        print("DEV-SUBSET %d obligations matching %r" % (len(obs), only))
    names = collections.Counter(ob["name"] for ob in obs)
    if any(v > 1 for v in names.values()):
        print("HARNESS-ERROR duplicate obligation names: %s" % sorted(k for k, v in names.items() if v > 1)[:5])
        return 2
    known = load_known(prop)
    known_tags = sorted({f["tag"] for f in known})
    for i, ob in enumerate(obs):
        ob.setdefault("prop", prop)
        ob.setdefault("cube", {})
        ob["known_tags"] = known_tags
        ob["_idx"] = i
    # big ones first
    def _weight(ob):
        if "weight" in ob:
            return ob["weight"]
        w = 1.0
        for _, lo, hi in ob["params"]:
            w *= hi - lo + 1
        return w

    order = sorted(range(len(obs)), key=lambda i: -_weight(obs[i]))
    budget = float(getattr(mod, "HARD_BUDGET_S", {}).get(tier, 3600 if tier == "thorough" else 420))
    results = {}
    ctx = mp.get_context("fork")
    pool = ctx.Pool(NPROC, maxtasksperchild=1)
    try:
        it = pool.imap_unordered(_worker_entry, [obs[i] for i in order], chunksize=1)
        for _ in range(len(obs)):
            remaining = budget - (time.time() - t0)
            try:
                r = it.next(timeout=max(1.0, remaining))
            except mp.TimeoutError:
                break
            except StopIteration:
                break
            results[r["name"]] = r
    finally:
        pool.terminate()
        pool.join()
    for ob in obs:
        if ob["name"] not in results:
            results[ob["name"]] = {
                "name": ob["name"], "verdict": "UNKNOWN", "messages": ["hard budget exhausted"], "paths": 0,
                "queries": 0, "solver_time_s": 0, "smt_sat": 0, "smt_unsat": 0, "smt_unknown": 0, "covers": {},
                "sigs": [], "nontrivial_sigs": [], "samples": [], "cex": None, "known_seen": {}, "wall_s": 0,
                "aborted_paths": 0, "fail_paths": 0, "prop": prop, "harness": ob["harness"], "cube": ob["cube"],
                "params": ob["params"], "harness_error": None,
            }

    # ---------------------------------------------------------------- cross-engine differential (thorough tier)
    # a few of the smallest zsym obligations are explored again on CrossHair: both engines must exhaust the same
    # set of concrete trace signatures (translation validation of the proxy layer against an independent engine)
    cross = {"obligations": 0, "disagreements": []}
    ncross = int(getattr(mod, "CROSSCHECK", {}).get(tier, 0)) if isinstance(getattr(mod, "CROSSCHECK", None), dict) else 0
    if ncross and os.environ.get("VERIF_ENGINE") is None:
        def _size(ob):
            s = 1
            for _, lo, hi in ob["params"]:
                s *= hi - lo + 1
            return s

        cand = sorted([ob for ob in obs if ob.get("engine") == "zsym" and ob["harness"] == "sim" and results[ob["name"]]["verdict"] == "CONFIRMED" and results[ob["name"]]["paths"] <= 40], key=_size)
        pick = cand[:: max(1, len(cand) // ncross)][:ncross]
        pool = ctx.Pool(NPROC, maxtasksperchild=1)
        try:
            outs = pool.map(_worker_entry, [dict(ob, engine="crosshair", timeout=900, name=ob["name"] + "@crosshair") for ob in pick], chunksize=1)
        finally:
            pool.terminate()
            pool.join()
        for ob, r in zip(pick, outs):
            z = results[ob["name"]]
            cross["obligations"] += 1
            if r["verdict"] != z["verdict"] or sorted(r["sigs"]) != sorted(z["sigs"]):
                cross["disagreements"].append({"obligation": ob["name"], "zsym": [z["verdict"], z["paths"], len(z["sigs"])], "crosshair": [r["verdict"], r["paths"], len(r["sigs"])]})
    t_explore = time.time() - t0
    # ---------------------------------------------------------------- aggregate
    lines = []
    exit_code = 0
    verdicts = collections.Counter(r["verdict"] for r in results.values())
    covers = collections.Counter()
    sigs, ntsigs = set(), set()
    for r in results.values():
        covers.update(r["covers"])
        sigs.update(r["sigs"])
        ntsigs.update(r["nontrivial_sigs"])
    inconclusive = []
    for r in results.values():
        if r["verdict"] in ("UNKNOWN", "PRE_UNSAT"):
            inconclusive.append(r["name"])
            lines.append("INCONCLUSIVE obligation=%s verdict=%s %s" % (r["name"], r["verdict"], "; ".join(r.get("messages", []))[:200]))
    # cover goals per harness
    req = getattr(mod, "REQUIRED_COVERS", {}).get(tier, getattr(mod, "REQUIRED_COVERS", {}).get("any", []))
    missing_cover = [g for g in req if covers.get(g, 0) == 0]
    for g in missing_cover:
        lines.append("INCONCLUSIVE cover-goal-not-reached=%s" % g)

    # harness errors
    herr = [r for r in results.values() if r["verdict"] == "HARNESS_ERROR"]
    for r in herr:
        lines.append("HARNESS-ERROR obligation=%s %s" % (r["name"], (r.get("harness_error") or "")[-800:]))
        exit_code = 2

    # ---------------------------------------------------------------- replays
    violations = []
    spurious = []
    cex_cases = []
    for r in results.values():
        if r["verdict"] == "REFUTED":
            cex_cases.append((r, {"prop": prop, "harness": r["harness"], "cube": r["cube"], "params": r["cex"]["params"],
                                  "fails": r["cex"]["fails"], "known_tags": known_tags}))
    sample_cases = []
    for r in results.values():
        for s in r["samples"]:
            sample_cases.append((r, s, {"prop": prop, "harness": r["harness"], "cube": r["cube"], "params": s["params"]}))
    known_cases = []
    for f in known:
        if f.get("witness"):
            w = dict(f["witness"])
            w["prop"] = prop
            known_cases.append((f, w))
    try:
        outs = replay_batch([c for _, c in cex_cases] + [c for _, _, c in sample_cases] + [c for _, c in known_cases])
    except Exception as e:  # noqa: BLE001
        print("HARNESS-ERROR replay: %r" % e)
        return 2
    o_cex = outs[: len(cex_cases)]
    o_smp = outs[len(cex_cases): len(cex_cases) + len(sample_cases)]
    o_known = outs[len(cex_cases) + len(sample_cases):]
    os.makedirs(os.path.join(VERIF, "replays"), exist_ok=True)
    for fn in os.listdir(os.path.join(VERIF, "replays")):
        if fn.startswith(prop + "-"):
            os.remove(os.path.join(VERIF, "replays", fn))
    for (r, case), o in zip(cex_cases, o_cex):
        residual = [f for f in o["fails"] if f not in known_tags]
        if o["error"]:
            lines.append("HARNESS-ERROR replay of %s raised: %s" % (r["name"], o["error"][-600:]))
            exit_code = 2
        elif residual:
            h = hashlib.md5(json.dumps(case, sort_keys=True).encode()).hexdigest()[:10]
            path = os.path.join(VERIF, "replays", "%s-%s.json" % (prop, h))
            case["observed"] = o["fails"]
            case["notes"] = o.get("notes")
            json.dump(case, open(path, "w"), indent=1, sort_keys=True, default=str)
            violations.append({"obligation": r["name"], "replay": path, "fails": residual, "params": case["params"], "cube": case["cube"]})
            lines.append("VIOLATION property=%s replay=%s" % (prop, path))
            lines.append("  obligation=%s clauses=%s input=%s" % (r["name"], residual[:4], json.dumps(case["params"], sort_keys=True)))
        else:
            spurious.append(r["name"])
            lines.append("HARNESS-ERROR spurious counterexample (does not reproduce on the real code) obligation=%s input=%s expected=%s observed=%s"
                         % (r["name"], json.dumps(case["params"], sort_keys=True), r["cex"]["fails"], o["fails"]))
            exit_code = 2
    validated = 0
    mismatched = []
    for (r, s, case), o in zip(sample_cases, o_smp):
        if o["error"] is None and o["sig"] == s["sig"] and not [f for f in o["fails"] if f not in known_tags]:
            validated += 1
        else:
            mismatched.append({"obligation": r["name"], "params": s["params"], "sym_sig": s["sig"], "real_sig": o["sig"], "real_fails": o["fails"], "error": o["error"]})
    for m in mismatched[:5]:
        lines.append("HARNESS-ERROR witness mismatch between engine and real code: %s" % json.dumps(m, default=str)[:600])
        exit_code = 2
    for dis in cross["disagreements"]:
        lines.append("HARNESS-ERROR engines disagree: %s" % json.dumps(dis))
        exit_code = 2
    known_seen = {}
    for r in results.values():
        for tag, m in r["known_seen"].items():
            known_seen.setdefault(tag, {"obligation": r["name"], "params": m})
    known_lines = []
    for (f, case), o in zip(known_cases, o_known):
        if f["tag"] in o["fails"]:
            known_lines.append("KNOWN-FINDING: property=%s %s -- %s" % (prop, f["tag"], f.get("what", "")))
        else:
            lines.append("note: listed known finding %s no longer reproduces from its stored witness" % f["tag"])
    if violations:
        exit_code = 1 if exit_code == 0 else exit_code
        if exit_code == 2 and violations:
            exit_code = 1

    # ---------------------------------------------------------------- evidence
    n_ob = len(obs)
    discharged = verdicts.get("CONFIRMED", 0)
    total_paths = sum(r["paths"] for r in results.values())
    total_q = sum(r["queries"] for r in results.values())
    samples = []
    for r in results.values():
        for s in r["samples"][:1]:
            samples.append({"obligation": r["name"], "cube": r["cube"], "witness": s["params"], "covers": s.get("covers", []), "notes": s.get("notes", {})})
    samples = samples[:12]
    if not samples:
        samples = [{"obligation": r["name"], "cube": r["cube"]} for r in list(results.values())[:3]]
    meta = getattr(mod, "META", {})
    ev = {
        "property_id": prop,
        "tier": tier,
        "seed": seed,
        "level": "model_checking",
        "wall_s": round(time.time() - t0, 2),
        "violations": len(violations),
        "assumptions": meta.get("assumptions", []),
        "coverage": {
            "states": max(total_paths, 1) if total_paths else 0,
            "transitions": total_q,
            "traces_validated_against_impl": validated,
            "samples": samples,
            "evaluations": total_paths,
            "distinct_nontrivial": len(ntsigs),
            "rule": meta.get("rule", ""),
            "exhaustive": bool(discharged == n_ob and not missing_cover),
            "explanation": "states = symbolic paths (path-condition classes) of the real pDESy source explored by the engine named per cube "
                           "(zsym, or CrossHair for leaf units); transitions = SMT queries decided by z3; an obligation is discharged only when "
                           "its path tree was exhausted with the oracle true on every path; bounds are per cube below",
            "tree_analysed": _tree(),
            "obligations": n_ob,
            "discharged": discharged,
            "inconclusive": inconclusive,
            "refuted": [r["name"] for r in results.values() if r["verdict"] == "REFUTED"],
            "verdicts": dict(verdicts),
            "distinct_traces": len(sigs),
            "aborted_paths": sum(r.get("aborted_paths", 0) for r in results.values()),
            "solver_time_s": round(sum(r["solver_time_s"] for r in results.values()), 2),
            "cpu_s_obligations": round(sum(r["wall_s"] for r in results.values()), 1),
            "smt_sat": sum(r["smt_sat"] for r in results.values()),
            "smt_unsat": sum(r["smt_unsat"] for r in results.values()),
            "smt_unknown": sum(r["smt_unknown"] for r in results.values()),
            "nonlinear_products_case_split": sum(r.get("nonlinear_splits", 0) for r in results.values()),
            "solver_second_opinions": sum(r.get("solver_disagreements", 0) for r in results.values()),
            "alternatives_discarded_as_infeasible": sum(r.get("discarded_prefixes", 0) for r in results.values()),
            "cover_goals": dict(covers),
            "cover_goals_required": list(req),
            "cover_goals_missing": missing_cover,
            "bounds": meta.get("bounds", {}).get(tier, meta.get("bounds", {})),
            "outside_claim": meta.get("outside", []),
            "functions_encoded": meta.get("functions", []),
            "stubs": meta.get("stubs", []),
            "engine": {
                "zsym": "engine/zsym.py: dynamic symbolic execution of /repo's current Python source by z3-backed proxy numbers (ints: Int, floats: exact Real), DFS to exhaustion; z3 %s" % _z3v(),
                "crosshair": "CrossHair 0.0.110 symbolic execution of /repo's current Python source, real-arithmetic float model; z3 %s" % _z3v(),
            },
            "cross_engine_check": cross,
            "engines_used": dict(collections.Counter(r.get("engine", "crosshair") for r in results.values())),
            "cubes": [
                {"obligation": r["name"], "engine": r.get("engine", "crosshair"), "verdict": r["verdict"], "paths": r["paths"], "queries": r["queries"],
                 "solver_s": r["solver_time_s"], "wall_s": r["wall_s"], "params": r["params"]}
                for r in sorted(results.values(), key=lambda r: r["name"])
            ][:400],
            "known_findings_seen": {k: v for k, v in known_seen.items()},
            "known_finding_lines": known_lines,
            "violations_detail": violations[:10],
            "witness_mismatches": mismatched[:5],
            "spurious": spurious,
        },
    }
    if ev["coverage"]["states"] == 0:
        ev["coverage"]["states"] = 0
    os.makedirs(os.path.join(VERIF, "evidence"), exist_ok=True)
    with open(os.path.join(VERIF, "evidence", prop + ".json"), "w") as f:
        json.dump(ev, f, indent=1, sort_keys=True, default=str)

    for ln in known_lines:
        print(ln)
    for ln in lines:
        print(ln)
    print("phases: explore=%.1fs replay+report=%.1fs" % (t_explore, time.time() - t0 - t_explore))
    print("%s %s: obligations=%d discharged=%d refuted=%d inconclusive=%d paths=%d smt_queries=%d solver_s=%.1f wall_s=%.1f validated_witnesses=%d exit=%d"
          % (prop, tier, n_ob, discharged, verdicts.get("REFUTED", 0), len(inconclusive), total_paths, total_q,
             ev["coverage"]["solver_time_s"], ev["wall_s"], validated, exit_code))
    return exit_code


def _tree():
    try:
        head = subprocess.run(["git", "-C", chconf.REPO, "rev-parse", "--short", "HEAD"], capture_output=True, text=True).stdout.strip()
        dirty = subprocess.run(["git", "-C", chconf.REPO, "status", "--porcelain", "--untracked-files=no"], capture_output=True, text=True).stdout.strip()
        return {"path": chconf.REPO, "head": head, "working_tree_modified": bool(dirty)}
    except Exception:  # noqa: BLE001
        return {"path": chconf.REPO}


def _z3v():
    try:
        import z3

        return z3.get_version_string()
    except Exception:  # noqa: BLE001
        return "?"


if __name__ == "__main__":
    sys.exit(main(sys.argv[1:]))
