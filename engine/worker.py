"""One obligation = one CrossHair condition over one cube (DESIGN §2.2).

run_obligation(ob) explores the path tree of the generated harness
    ob(<symbolic int params>) -> bool      pre: ranges      post: _
whose body builds the model from (cube constants + symbolic params), drives the real pDESy code and
evaluates the property oracle.  The solver's verdict over the whole bounded space is the result.
"""
import collections
import importlib
import linecache
import sys
import time
import types

from . import chconf
from .sym import Ctx, sig_hash

MAX_SAMPLES = 3


def _gen_harness(ob, core_wrapper):
    params = ob["params"]
    names = [p[0] for p in params]
    pre = " and ".join("%d <= %s <= %d" % (p[1], p[0], p[2]) for p in params) or "True"
    extra = ob.get("pre")
    if extra:
        pre = "(%s) and (%s)" % (pre, extra)
    src = (
        "def ob(%s) -> bool:\n"
        '    """\n'
        "    pre: %s\n"
        "    post: _\n"
        '    """\n'
        "    return _core({%s})\n"
    ) % (
        ", ".join("%s: int" % n for n in names),
        pre,
        ", ".join("'%s': %s" % (n, n) for n in names),
    )
    modname = "vgen_%d" % (abs(hash(src)) % 10**9)
    fname = "<%s>" % modname
    linecache.cache[fname] = (len(src), None, src.splitlines(True), fname)
    mod = types.ModuleType(modname)
    mod.__file__ = fname
    sys.modules[modname] = mod
    mod.__dict__["_core"] = core_wrapper
    exec(compile(src, fname, "exec"), mod.__dict__)
    return mod.__dict__["ob"], src


def run_obligation(ob):
    if ob.get("engine", "crosshair") == "zsym":
        return run_obligation_zsym(ob)
    return run_obligation_crosshair(ob)


def _new_res(ob):
    return {
        "name": ob["name"], "paths": 0, "aborted_paths": 0, "covers": collections.Counter(), "sigs": set(), "nontrivial_sigs": set(),
        "samples": [], "cex": None, "known_seen": {}, "harness_error": None, "fail_paths": 0,
    }


def _end_of_path(res, ctx, known, model_fn):
    """Bookkeeping shared by both engines; returns True when the oracle held (up to listed known findings)."""
    res["paths"] += 1
    if ctx.aborted:
        res["aborted_paths"] += 1
    for c in ctx.covers:
        res["covers"][c] += 1
    h = sig_hash(ctx.sig) if ctx.sig is not None else None
    new_sig = h is not None and h not in res["sigs"]
    if h is not None:
        res["sigs"].add(h)
        if ctx.nontrivial:
            res["nontrivial_sigs"].add(h)
    residual = [f for f in ctx.fails if f not in known]
    seen_known = [f for f in ctx.fails if f in known]
    need_model = bool(residual) or any(f not in res["known_seen"] for f in seen_known)
    want_sample = len(res["samples"]) < MAX_SAMPLES and new_sig and (ctx.nontrivial or not res["samples"])
    if need_model or want_sample:
        try:
            m = model_fn()
        except Exception:  # noqa: BLE001
            m = None
        if m is not None:
            for f in seen_known:
                res["known_seen"].setdefault(f, m)
            if residual and res["cex"] is None:
                res["cex"] = {"params": m, "fails": residual, "notes": ctx.notes}
            if want_sample and not residual:
                res["samples"].append({"params": m, "sig": h, "covers": sorted(ctx.covers), "notes": ctx.notes})
    if residual:
        res["fail_paths"] += 1
    return not residual


def _finish(res, ob, verdict, msgs, t_start, **extra):
    res.update(
        verdict=verdict, messages=msgs, wall_s=round(time.time() - t_start, 2), covers=dict(res["covers"]),
        sigs=sorted(res["sigs"]), nontrivial_sigs=sorted(res["nontrivial_sigs"]), prop=ob["prop"], harness=ob["harness"],
        cube=ob.get("cube", {}), params=ob["params"], engine=ob.get("engine", "crosshair"),
    )
    res.update(extra)
    return res


def run_obligation_zsym(ob):
    t_start = time.time()
    chconf.force_repo_first()
    from . import zsym

    mod = importlib.import_module("props." + ob["prop"].lower())
    core = getattr(mod, ob["harness"])
    cube = ob.get("cube", {})
    known = set(ob.get("known_tags", []))
    res = _new_res(ob)
    eng = zsym.Engine(ob["params"], pre=ob.get("pre"), timeout=float(ob.get("timeout", 60)))

    def fn(symvals):
        ctx = Ctx(symbolic=True, engine="zsym")
        p = dict(cube)
        p.update(symvals)
        try:
            core(p, ctx)
        except Exception as e:  # noqa: BLE001
            import traceback

            ctx.fail("HARNESS-EXC:%s" % type(e).__name__)
            res["harness_error"] = traceback.format_exc()[-1500:]
        return _end_of_path(res, ctx, known, eng.current_model)

    msgs = []
    try:
        status = eng.explore(fn)
    except Exception:  # noqa: BLE001
        import traceback

        res["harness_error"] = "engine: " + traceback.format_exc()[-1500:]
        status = "error"
    msgs.append("zsym: %s %s" % (status, getattr(eng, "last_error", "")))
    if res["cex"] is not None and any(not f.startswith("HARNESS-EXC") for f in res["cex"]["fails"]):
        # genuine clause failures were recorded before the harness itself tripped: they go to the replay, which decides
        res["cex"]["fails"] = [f for f in res["cex"]["fails"] if not f.startswith("HARNESS-EXC")]
        verdict = "REFUTED"
    elif res["harness_error"] and (res["cex"] is None or any(f.startswith("HARNESS-EXC") for f in res["cex"]["fails"])):
        verdict = "HARNESS_ERROR"
    elif status == "nondeterministic":
        verdict = "HARNESS_ERROR"
        res["harness_error"] = "nondeterministic harness: " + getattr(eng, "last_error", "")
    elif res["cex"] is not None:
        verdict = "REFUTED"
    elif status == "exhausted":
        verdict = "CONFIRMED"
    elif status == "pre_unsat":
        verdict = "PRE_UNSAT"
    else:
        verdict = "UNKNOWN"
    st = eng.stats
    return _finish(res, ob, verdict, msgs, t_start, ch_paths=eng.paths, queries=st["queries"], solver_time_s=round(st["solver_time_s"], 3),
                   smt_sat=st["sat"], smt_unsat=st["unsat"], smt_unknown=st["unknown"], decisions=st["decisions"], concretizations=st["concretizations"],
                   nonlinear_splits=st.get("nonlinear_splits", 0), discarded_prefixes=st.get("discarded_prefixes", 0), solver_disagreements=st.get("solver_disagreements", 0))


def run_obligation_crosshair(ob):
    t_start = time.time()
    chconf.force_repo_first()
    chconf.configure()
    from crosshair.core_and_libs import analyze_function, run_checkables
    from crosshair.options import AnalysisOptionSet, AnalysisKind
    from crosshair.statespace import context_statespace, MessageType
    from crosshair.tracers import NoTracing

    mod = importlib.import_module("props." + ob["prop"].lower())
    core = getattr(mod, ob["harness"])
    cube = ob.get("cube", {})
    known = set(ob.get("known_tags", []))
    q0 = collections.Counter(chconf.QSTATS)

    res = {
        "name": ob["name"],
        "paths": 0,
        "aborted_paths": 0,
        "covers": collections.Counter(),
        "sigs": set(),
        "nontrivial_sigs": set(),
        "samples": [],
        "cex": None,
        "known_seen": {},
        "harness_error": None,
        "fail_paths": 0,
    }

    def model_of(symvals):
        """Concrete argument tuple satisfying the current path condition (read-only query)."""
        space = context_statespace()
        r = space.solver.check()
        if str(r) != "sat":
            return None
        m = space.solver.model()
        out = {}
        for k, v in symvals.items():
            if hasattr(v, "var"):
                ev = m.eval(v.var, model_completion=True)
                out[k] = ev.as_long()
            else:
                out[k] = int(v)
        return out

    def core_wrapper(symvals):
        ctx = Ctx(symbolic=True)
        p = dict(cube)
        p.update(symvals)
        try:
            core(p, ctx)
        except Exception as e:  # noqa: BLE001
            if type(e).__name__ == "NotDeterministic":
                raise
            import traceback

            ctx.fail("HARNESS-EXC:%s" % type(e).__name__)
            with NoTracing():
                res["harness_error"] = traceback.format_exc()[-1500:]
        with NoTracing():
            res["paths"] += 1
            if ctx.aborted:
                res["aborted_paths"] += 1
            for c in ctx.covers:
                res["covers"][c] += 1
            h = sig_hash(ctx.sig) if ctx.sig is not None else None
            new_sig = h is not None and h not in res["sigs"]
            if h is not None:
                res["sigs"].add(h)
                if ctx.nontrivial:
                    res["nontrivial_sigs"].add(h)
            residual = [f for f in ctx.fails if f not in known]
            seen_known = [f for f in ctx.fails if f in known]
            need_model = bool(residual) or any(f not in res["known_seen"] for f in seen_known)
            want_sample = (
                len(res["samples"]) < MAX_SAMPLES and new_sig and (ctx.nontrivial or not res["samples"])
            )
            if need_model or want_sample:
                try:
                    m = model_of(symvals)
                except Exception:  # noqa: BLE001  (no statespace while CrossHair renders its message)
                    m = None
                if m is not None:
                    for f in seen_known:
                        res["known_seen"].setdefault(f, m)
                    if residual and res["cex"] is None:
                        res["cex"] = {"params": m, "fails": residual, "notes": ctx.notes}
                    if want_sample and not residual:
                        res["samples"].append({"params": m, "sig": h, "covers": sorted(ctx.covers), "notes": ctx.notes})
            if residual:
                res["fail_paths"] += 1
        return not residual

    fn, src = _gen_harness(ob, core_wrapper)
    stats = collections.Counter()
    opts = AnalysisOptionSet(
        analysis_kind=[AnalysisKind.PEP316],
        per_condition_timeout=float(ob.get("timeout", 60)),
        per_path_timeout=float(ob.get("path_timeout", 60)),
        report_all=True,
        max_uninteresting_iterations=10**9,
        stats=stats,
    )
    states = []
    msgs_txt = []
    try:
        msgs = run_checkables(analyze_function(fn, opts))
        for m in msgs:
            states.append(m.state)
            msgs_txt.append("%s: %s" % (m.state.name, (m.message or "")[:400]))
    except Exception as e:  # noqa: BLE001
        import traceback

        res["harness_error"] = "engine: " + traceback.format_exc()[-1500:]

    if res["harness_error"] and (res["cex"] is None or any(f.startswith("HARNESS-EXC") for f in res["cex"]["fails"])):
        verdict = "HARNESS_ERROR"
    elif res["cex"] is not None:
        verdict = "REFUTED"
    elif MessageType.CONFIRMED in states and len(states) == 1:
        verdict = "CONFIRMED"
    elif MessageType.PRE_UNSAT in states:
        verdict = "PRE_UNSAT"
    elif any(s in (MessageType.POST_FAIL, MessageType.EXEC_ERR, MessageType.POST_ERR) for s in states):
        # a failing path whose model could not be captured: inconclusive, never a silent pass
        verdict = "UNKNOWN"
    else:
        verdict = "UNKNOWN"

    dq = collections.Counter(chconf.QSTATS)
    dq.subtract(q0)
    res.update(
        verdict=verdict,
        messages=msgs_txt,
        ch_paths=stats.get("num_paths", 0),
        queries=dq["queries"],
        solver_time_s=round(dq["solver_time_us"] / 1e6, 3),
        smt_sat=dq["smt_sat"],
        smt_unsat=dq["smt_unsat"],
        smt_unknown=dq["smt_unknown"],
        wall_s=round(time.time() - t_start, 2),
        covers=dict(res["covers"]),
        sigs=sorted(res["sigs"]),
        nontrivial_sigs=sorted(res["nontrivial_sigs"]),
        prop=ob["prop"],
        harness=ob["harness"],
        cube=cube,
        params=ob["params"],
    )
    return res
