"""Concrete replay on the real code, outside the engine (DESIGN §2.5).

    python -m engine.replay <file.json>            human-readable replay of a stored counterexample
    python -m engine.replay --batch <in> <out>     machine use: list of cases in, list of outcomes out

No CrossHair is imported here: plain CPython floats, real numpy, real json + files, real sets.
"""
import importlib
import json
import sys
import traceback

from . import chconf
from .sym import Ctx, sig_hash


def run_case(case):
    chconf.force_repo_first()
    mod = importlib.import_module("props." + case["prop"].lower())
    core = getattr(mod, case["harness"])
    p = dict(case.get("cube", {}))
    p.update(case["params"])
    ctx = Ctx(symbolic=False)
    out = {"fails": [], "sig": None, "error": None}
    try:
        core(p, ctx)
    except Exception:  # noqa: BLE001
        out["error"] = traceback.format_exc()[-2000:]
    out["fails"] = list(ctx.fails)
    out["sig"] = sig_hash(ctx.sig) if ctx.sig is not None else None
    out["notes"] = ctx.notes
    out["covers"] = sorted(ctx.covers)
    return out


def main(argv):
    if argv and argv[0] == "--batch":
        cases = json.load(open(argv[1]))
        outs = [run_case(c) for c in cases]
        json.dump(outs, open(argv[2], "w"))
        return 0
    case = json.load(open(argv[0]))
    out = run_case(case)
    known = set(case.get("known_tags", []))
    residual = [f for f in out["fails"] if f not in known]
    print("property   :", case["prop"])
    print("harness    :", case["harness"], json.dumps(case.get("cube", {}), sort_keys=True))
    print("input      :", json.dumps(case["params"], sort_keys=True))
    print("expected   :", case.get("fails"))
    print("observed   :", out["fails"])
    if out["notes"]:
        print("notes      :", json.dumps(out["notes"], default=str)[:3000])
    if out["error"]:
        print("harness error during replay:\n" + out["error"])
        return 2
    if residual:
        print("REPRODUCED: the real code violates the property on this input")
        return 1
    print("not reproduced on the current tree")
    return 0


if __name__ == "__main__":
    sys.exit(main(sys.argv[1:]))
