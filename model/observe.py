"""Step observer without source hooks (DESIGN §2.8) and complete log dump (§3.2).

Phases of step k (k = project.time during the step):
  updated    - BaseProject.__update returned (FINISHED/READY promotion, placement release, PERT done)
  allocated  - BaseOrganization.add_labor_cost entered (allocation and READY->WORKING promotion done)
  performed  - BaseProject.__record entered (work performed, nothing recorded yet)
  recorded   - BaseProject.__record returned
The last `updated` snapshot has no further phases (simulate returned after it).
"""
import contextlib


class Injected(Exception):
    """Exception injected by the harness at a chosen (step, phase)."""


class InjectedBase(BaseException):
    """The same, but not derived from Exception (stands for KeyboardInterrupt / SystemExit aborting a run)."""


def snap(M):
    """Live state of the model (references only; numbers may be solver variables)."""
    s = {
        "time": M.project.time,
        "tstate": [int(t.state) for t in M.tasks],
        "rem": [t.remaining_work_amount for t in M.tasks],
        "talloc_w": [[w._idx for w in t.allocated_worker_list] for t in M.tasks],
        "talloc_f": [[f._idx for f in t.allocated_facility_list] for t in M.tasks],
        "wstate": [int(w.state) for w in M.workers],
        "wassign": [[t._idx for t in w.assigned_task_list] for w in M.workers],
        "fstate": [int(f.state) for f in M.facs],
        "fassign": [[t._idx for t in f.assigned_task_list] for f in M.facs],
        "cstate": [int(c.state) for c in M.comps],
        "cplaced": [(M.wps.index(c.placed_workplace) if c.placed_workplace is not None else None) for c in M.comps],
        "wpplaced": [[M.comps.index(c) for c in wp.placed_component_list] for wp in M.wps],
        "pert": [(t.est, t.eft, t.lst, t.lft) for t in M.tasks],
        "cpl": M.workflow.critical_path_length,
    }
    return s


class Observer:
    def __init__(self, M, inject=None, want=("updated", "allocated", "performed", "recorded")):
        self.M = M
        self.steps = []  # list of dict phase -> snapshot
        self.inject = inject  # (step, phase) or None
        self.want = set(want)
        self._cur = None
        self.moves = []  # (step, component index, workplace index) for every placement made by the allocator

    def _phase(self, name):
        M = self.M
        k = M.project.time
        if name == "updated":
            self._cur = {"t": k}
            self.steps.append(self._cur)
        elif self._cur is None or self._cur["t"] != k:
            # the main loop reached a later phase of step k without having called the update for it: the step still gets a
            # record, with the state found now standing in for the (missing) updated phase, so that the oracles see the step
            self._cur = {"t": k, "updated": snap(M), "update_missing": True}
            self.steps.append(self._cur)
        if name in self.want and self._cur is not None:
            self._cur[name] = snap(M)
        if self.inject is not None and self.inject[0] == k and self.inject[1] == name:
            if len(self.inject) > 2 and self.inject[2] == "base":
                raise InjectedBase("%s@%s" % (name, k))
            raise Injected("%s@%s" % (name, k))

    @contextlib.contextmanager
    def installed(self):
        from pDESy.model.base_project import BaseProject
        from pDESy.model.base_organization import BaseOrganization

        obs = self
        o_update = BaseProject._BaseProject__update
        o_record = BaseProject._BaseProject__record
        o_cost = BaseOrganization.add_labor_cost

        # the wrappers pass every argument through unchanged, so a refactoring that adds parameters to the wrapped
        # methods does not break the observer
        def update(self_, *a, **k):
            r = o_update(self_, *a, **k)
            if self_ is obs.M.project:
                obs._phase("updated")
            return r

        def record(self_, *a, **k):
            working = k.get("working", a[0] if a else True)
            if self_ is obs.M.project:
                obs._phase("performed")
            r = o_record(self_, *a, **k)
            if self_ is obs.M.project:
                obs._cur["working"] = bool(working)
                obs._phase("recorded")
            return r

        def cost(self_, *a, **k):
            if self_ is obs.M.org:
                obs._phase("allocated")
            return o_cost(self_, *a, **k)

        from pDESy.model.base_workplace import BaseWorkplace

        o_place = BaseWorkplace.set_placed_component
        depth = [0]

        def place(self_, placed_component, *a, **k):
            if depth[0] == 0 and self_ in obs.M.wps and placed_component in obs.M.comps:
                obs.moves.append((obs.M.project.time, obs.M.comps.index(placed_component), obs.M.wps.index(self_),
                                  [int(t.state) for t in obs.M.tasks], [[f._idx for f in t.allocated_facility_list] for t in obs.M.tasks]))
            depth[0] += 1
            try:
                return o_place(self_, placed_component, *a, **k)
            finally:
                depth[0] -= 1

        BaseProject._BaseProject__update = update
        BaseProject._BaseProject__record = record
        BaseOrganization.add_labor_cost = cost
        BaseWorkplace.set_placed_component = place
        try:
            yield self
        finally:
            BaseProject._BaseProject__update = o_update
            BaseProject._BaseProject__record = o_record
            BaseOrganization.add_labor_cost = o_cost
            BaseWorkplace.set_placed_component = o_place


LOG_SUFFIXES = ("_record_list", "_id_record", "cost_list")


def log_attrs(obj):
    """Per-step logs of an object, found by reflection so that a newly added log is included automatically."""
    return sorted(a for a in vars(obj) if a.endswith(LOG_SUFFIXES) and isinstance(getattr(obj, a), list))


def all_objects(M):
    out = [("project", M.project), ("organization", M.org)]
    out += [("task:%d" % i, t) for i, t in enumerate(M.tasks)]
    out += [("comp:%d" % i, c) for i, c in enumerate(M.comps)]
    out += [("team:%d" % i, t) for i, t in enumerate(M.teams)]
    out += [("worker:%d" % i, w) for i, w in enumerate(M.workers)]
    out += [("wp:%d" % i, w) for i, w in enumerate(M.wps)]
    out += [("fac:%d" % i, f) for i, f in enumerate(M.facs)]
    return out


def dump(M):
    """Every per-step log of every object + time/status (values may be solver variables)."""
    d = {"time": M.project.time, "status": int(M.project.status)}
    for name, o in all_objects(M):
        for a in log_attrs(o):
            d["%s.%s" % (name, a)] = list(getattr(o, a))
    return d


def concrete_sig(M):
    """Concrete (on-path) signature of a run: all state logs and allocation logs, no numeric values."""
    parts = [M.project.time, int(M.project.status)]
    for t in M.tasks:
        parts.append(tuple(int(s) for s in t.state_record_list))
        parts.append(tuple(tuple(x) if x is not None else None for x in t.allocated_worker_id_record))
    for w in M.workers:
        parts.append(tuple(int(s) for s in w.state_record_list))
    for f in M.facs:
        parts.append(tuple(int(s) for s in f.state_record_list))
    for c in M.comps:
        parts.append(tuple(int(s) for s in c.state_record_list))
        parts.append(tuple(c.placed_workplace_id_record))
    return tuple(parts)
