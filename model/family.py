"""Bounded model families (DESIGN §3.1).

A *spec* is a JSON-able dict describing one member of the family; any number in it may be given as a
placeholder string "$name" that is resolved from the parameter dict `p` (solver variables in a symbolic run,
plain ints in a replay).  Structure (list lengths, indices, booleans that select structure) is concrete per cube.

spec = {
  "tasks": [ {"w": 2 | "$w0",            work amount (int)
              "g": 0|1|2 | "$g0",         default progress in halves (0, 1/2, 1)
              "auto": false, "rate": 1,   auto task and its unit rate
              "nf": false, "comp": null,  need_facility, index of target component
              "fixw": null|[idx..], "fixf": null|[idx..],   fixed worker / facility id lists
              "due": -1, "wrule": null, "frule": null, "wprule": null,
              "wps": [idx..]} ],          allocated workplaces (teams are given on the team side)
  "edges": [[i, j, kind]],                i is a predecessor of j; kind 0..3 (FS,SS,FF,SF), may be "$k01"
  "teams": [ {"targets": [task idx..], "workers": [ {"skills": {"<task idx>": val}, "cost": 1, "solo": false,
              "abs": [step..], "fskills": {"<fac idx>": val}, "mw": null|wp idx} ]} ],
  "wps":   [ {"targets": [task idx..], "cap": 1, "inputs": [wp idx..],
              "facs": [ {"skills": {"<task idx>": val}, "cost": 1, "solo": false, "abs": [step..]} ]} ],
  "comps": [ {"size": 1, "children": [idx..]} ],
  "run":   {"abs": [step..], "flag": false, "rule": 0, "max_time": 8}
}
"""
import datetime

INIT_DT = datetime.datetime(2024, 1, 1, 0, 0, 0)


def val(x, p):
    if isinstance(x, str) and x.startswith("$"):
        return p[x[1:]]
    return x


def vlist(xs, p):
    return [val(x, p) for x in xs]


class Model:
    pass


_HASH_INSTALLED = False


def _stable_hash(self):
    h = getattr(self, "_hprio", None)
    if h is not None:
        return h
    ident = str(self.ID)
    digits = "".join(ch for ch in ident if ch.isdigit())
    if digits and len(ident) <= 4:
        return int(digits)
    # objects created by pDESy itself (uuid IDs, e.g. the helper tasks of backward_simulate): numbered in order
    # of first use, which is deterministic for a deterministic program
    _AUTO[0] += 1
    self._hprio = 1000 + _AUTO[0]
    return self._hprio


_AUTO = [0]


def install_hashes():
    """Give task and component objects a harness-controlled hash (no change to pDESy's source).

    pDESy iterates over `set`s of task / component objects; with the default address-based hash the visiting order
    changes with every rebuild of the model.  The harness fixes the hash (task/component index, or a value chosen by
    C09's order obligations through `_hprio`): real CPython sets of small distinct ints iterate in ascending order, so
    symbolic re-executions, replays and objects re-created by read_simple_json all see the same, chosen order.  This
    is exactly the degree of freedom that object addresses give, made explicit.
    """
    global _HASH_INSTALLED
    if _HASH_INSTALLED:
        return
    from pDESy.model.base_task import BaseTask
    from pDESy.model.base_component import BaseComponent

    BaseTask.__hash__ = _stable_hash
    BaseComponent.__hash__ = _stable_hash
    _HASH_INSTALLED = True


def task_class():
    from pDESy.model.base_task import BaseTask

    install_hashes()
    return BaseTask


def build(spec, p, symbolic, hprio=None, hprio_comp=None):
    """Build the pDESy object graph for `spec` under parameters `p`."""
    from pDESy.model.base_project import BaseProject
    from pDESy.model.base_workflow import BaseWorkflow
    from pDESy.model.base_product import BaseProduct
    from pDESy.model.base_organization import BaseOrganization
    from pDESy.model.base_team import BaseTeam
    from pDESy.model.base_worker import BaseWorker
    from pDESy.model.base_facility import BaseFacility
    from pDESy.model.base_workplace import BaseWorkplace
    from pDESy.model.base_component import BaseComponent
    from pDESy.model.base_task import BaseTaskDependency
    from pDESy.model.base_priority_rule import ResourcePriorityRuleMode, WorkplacePriorityRuleMode

    TaskCls = task_class()
    _AUTO[0] = 0
    M = Model()
    M.spec = spec
    tspecs = spec.get("tasks", [])
    n = len(tspecs)

    # ---- components
    # "idstyle": "bare" gives every kind of object the IDs "0", "1", ... (IDs are then only unique per kind)
    bare = spec.get("idstyle") == "bare"

    def oid(prefix, i):
        return "%d" % i if bare else "%s%d" % (prefix, i)

    M.oid = oid
    M.comps = []
    for ci, cs in enumerate(spec.get("comps", [])):
        M.comps.append(BaseComponent("CP%d" % ci, ID=oid("c", ci), space_size=val(cs.get("size", 1), p)))
        M.comps[-1]._hprio = ci if hprio_comp is None else hprio_comp[ci]
    for ci, cs in enumerate(spec.get("comps", [])):
        for ch in cs.get("children", []):
            M.comps[ci].append_child_component(M.comps[ch])

    # ---- tasks
    M.tasks = []
    M.work = []
    M.prog = []
    for ti, ts in enumerate(tspecs):
        w = val(ts.get("w", 1), p)
        g = val(ts.get("g", 0), p)
        kw = dict(
            ID=oid("t", ti),
            default_work_amount=w,
            default_progress=g / 2,
            auto_task=bool(ts.get("auto", False)),
            need_facility=bool(ts.get("nf", False)),
            due_time=val(ts.get("due", -1), p),
        )
        if "rate" in ts:
            kw["work_amount_progress_of_unit_step_time"] = val(ts["rate"], p)
        if ts.get("fixw") is not None:
            kw["fixing_allocating_worker_id_list"] = [oid("w", i) for i in ts["fixw"]]
        if ts.get("fixf") is not None:
            kw["fixing_allocating_facility_id_list"] = [oid("f", i) for i in ts["fixf"]]
        if ts.get("wrule") is not None:
            kw["worker_priority_rule"] = ResourcePriorityRuleMode(ts["wrule"])
        if ts.get("frule") is not None:
            kw["facility_priority_rule"] = ResourcePriorityRuleMode(ts["frule"])
        if ts.get("wprule") is not None:
            kw["workplace_priority_rule"] = WorkplacePriorityRuleMode(ts["wprule"])
        if ts.get("subproject"):
            from pDESy.model.base_subproject_task import BaseSubProjectTask

            kw.pop("auto_task")
            t = BaseSubProjectTask(file_path=ts.get("file"), name="T%d" % ti, **kw)
        else:
            t = TaskCls(ts.get("name", "T%d" % ti), **kw)  # "name": several tasks may share a name (skills are keyed by it)
        t._hprio = ti if hprio is None else hprio[ti]
        t._idx = ti
        M.tasks.append(t)
        M.work.append(w)
        M.prog.append(g)
        if ts.get("comp") is not None:
            M.comps[ts["comp"]].append_targeted_task(t)
    M.edges = []
    for (i, j, k) in spec.get("edges", []):
        kk = val(k, p)
        dep = kk if symbolic else BaseTaskDependency(int(kk))
        M.tasks[j].append_input_task(M.tasks[i], task_dependency_mode=dep)
        M.edges.append((i, j, kk))

    # ---- teams / workers
    M.teams = []
    M.workers = []  # flat, global index
    M.wteam = []
    M.wspec = []
    for mi, ms in enumerate(spec.get("teams", [])):
        ws = []
        for wsp in ms.get("workers", []):
            wi = len(M.workers)
            skills = {"T%s" % k: val(v, p) for k, v in wsp.get("skills", {}).items()}
            fsk = {"F%s" % k: val(v, p) for k, v in wsp.get("fskills", {}).items()}
            wk = BaseWorker(
                "W%d" % wi,
                ID=oid("w", wi),
                team_id=oid("tm", mi),
                cost_per_time=val(wsp.get("cost", 1), p),
                solo_working=bool(wsp.get("solo", False)),
                workamount_skill_mean_map=skills,
                workamount_skill_sd_map={},
                facility_skill_map=fsk,
                main_workplace_id=oid("wp", wsp["mw"]) if wsp.get("mw") is not None else None,
                quality_skill_mean_map={"T%s" % k: val(v, p) for k, v in wsp.get("qskills", {}).items()},
                quality_skill_sd_map={},
            )
            # assigned after construction (public attribute): the list reaches the library exactly as the model gives it
            wk.absence_time_list = vlist(wsp.get("abs", []), p)
            wk._idx = wi
            ws.append(wk)
            M.workers.append(wk)
            M.wteam.append(mi)
            M.wspec.append(wsp)
        tm = BaseTeam("TM%d" % mi, ID=oid("tm", mi), worker_list=ws)
        tm.extend_targeted_task_list([M.tasks[i] for i in ms.get("targets", [])])
        M.teams.append(tm)

    # ---- workplaces / facilities
    M.wps = []
    M.facs = []
    M.fwp = []
    M.fspec = []
    for pi, ps in enumerate(spec.get("wps", [])):
        fs = []
        for fsp in ps.get("facs", []):
            fi = len(M.facs)
            skills = {"T%s" % k: val(v, p) for k, v in fsp.get("skills", {}).items()}
            fc = BaseFacility(
                "F%d" % fi,
                ID=oid("f", fi),
                workplace_id=oid("wp", pi),
                cost_per_time=val(fsp.get("cost", 1), p),
                solo_working=bool(fsp.get("solo", False)),
                workamount_skill_mean_map=skills,
                workamount_skill_sd_map={},
            )
            fc.absence_time_list = vlist(fsp.get("abs", []), p)
            fc._idx = fi
            fs.append(fc)
            M.facs.append(fc)
            M.fwp.append(pi)
            M.fspec.append(fsp)
        wp = BaseWorkplace("WP%d" % pi, ID=oid("wp", pi), facility_list=fs, max_space_size=val(ps.get("cap", 1), p))
        M.wps.append(wp)
    # "wp_target_order": "reversed" registers the workplaces on the tasks in the reverse of the organization's order
    # (task.allocated_workplace_list then lists them in another order than organization.workplace_list)
    wp_order = list(range(len(M.wps)))
    if spec.get("wp_target_order") == "reversed":
        wp_order.reverse()
    for pi in wp_order:
        M.wps[pi].extend_targeted_task_list([M.tasks[i] for i in spec["wps"][pi].get("targets", [])])
    for pi, ps in enumerate(spec.get("wps", [])):
        for ii in ps.get("inputs", []):
            M.wps[pi].append_input_workplace(M.wps[ii])
    for mi, ms in enumerate(spec.get("teams", [])):
        if ms.get("parent") is not None:
            M.teams[mi].set_parent_team(M.teams[ms["parent"]])

    # "tl_order": order in which the tasks are listed in the workflow (default: index order).  pDESy visits tasks in
    # task_list order in several places, so the listing order is part of the model.
    order = spec.get("tl_order") or list(range(len(M.tasks)))
    M.workflow = BaseWorkflow([M.tasks[k] for k in order])
    M.product = BaseProduct(M.comps)
    M.org = BaseOrganization(team_list=M.teams, workplace_list=M.wps)
    M.project = BaseProject(
        init_datetime=INIT_DT,
        unit_timedelta=datetime.timedelta(minutes=1),
        product=M.product,
        workflow=M.workflow,
        organization=M.org,
    )
    # "decoy_wf": a second BaseWorkflow over some of the same task objects (e.g. a partial chart); it is never simulated
    if spec.get("decoy_wf"):
        M.decoy_wf = BaseWorkflow([M.tasks[i] for i in spec["decoy_wf"]])
    run = spec.get("run", {})
    M.run = {
        "abs": vlist(run.get("abs", []), p),
        "flag": bool(run.get("flag", False)),
        "rule": run.get("rule", 0),
        "max_time": val(run.get("max_time", 8), p),
        "unit_time": run.get("unit_time", 1),
        "backward": bool(run.get("backward", False)),
    }
    return M


def sim_kwargs(M):
    from pDESy.model.base_priority_rule import TaskPriorityRuleMode

    return dict(
        task_priority_rule=TaskPriorityRuleMode(M.run["rule"]),
        absence_time_list=list(M.run["abs"]),
        perform_auto_task_while_absence_time=M.run["flag"],
        max_time=M.run["max_time"],
        unit_time=M.run.get("unit_time", 1),
    )
