"""Contract stubs installed for symbolic runs only (DESIGN §2.4).  Replays use the real libraries."""
import contextlib


class _Random:
    def seed(self, seed=None):
        return None

    def normal(self, mean, sd=0):
        # numpy's documented value for scale 0 is the mean itself; properties are stated for deterministic skills
        if sd != 0:
            raise AssertionError("stub np.random.normal: sd != 0 is outside the claim")
        return mean

    def rand(self):
        # documented range [0,1); only feeds BaseComponent.error (advanced, never observed by any property)
        return 0.5


class _NP:
    random = _Random()


@contextlib.contextmanager
def numpy_stub(enabled=True):
    """Swap the module attribute `np` of the three pDESy modules that draw random numbers."""
    if not enabled:
        yield
        return
    import pDESy.model.base_worker as bw
    import pDESy.model.base_facility as bf
    import pDESy.model.base_component as bc

    saved = (bw.np, bf.np, bc.np)
    bw.np = bf.np = bc.np = _NP()
    try:
        yield
    finally:
        bw.np, bf.np, bc.np = saved


STUB_NOTES = [
    "np.random.normal(mean, sd) in base_worker/base_facility -> mean (asserts sd == 0); np.random.seed no-op",
    "np.random.rand() in base_component.update_error_value -> 0.5 (feeds only BaseComponent.error, which no property observes)",
    "set(...) of task objects: CrossHair's insertion-ordered set model (replays use real sets with hash = task index, same order)",
    "explicit IDs and init_datetime (no uuid4 / wall clock)",
]
